// C05.version_gate / C06.header_version: the stream header is parsed by the real PointCloudDecoder::Decode (a subclass stops
// the decode right after the header by refusing to initialise): unknown newer versions are rejected with UNKNOWN_VERSION,
// every supported version is accepted, and the version used by all later version gates is the one in THIS header --
// whatever version the DecoderBuffer carried from an earlier use.
#include "verif.h"
#include "draco/core/bit_utils.cc"
#include "draco/core/decoder_buffer.cc"
#include "draco/core/status.cc"
#include "draco/compression/point_cloud/point_cloud_decoder.h"
#include "draco/compression/point_cloud/point_cloud_decoder.cc"
#include "draco/point_cloud/point_cloud.cc"
#include "draco/attributes/point_attribute.cc"
#include "draco/attributes/geometry_attribute.cc"
#include "draco/core/data_buffer.cc"
#include "draco/core/draco_types.cc"
using namespace draco;
#define NB 12
struct StopDecoder : public PointCloudDecoder {
  EncodedGeometryType type; bool reached = false; uint16_t seen_version = 0;
  EncodedGeometryType GetGeometryType() const override { return type; }
  bool InitializeDecoder() override { reached = true; seen_version = buffer()->bitstream_version(); return false; }
  bool CreateAttributesDecoder(int32_t) override { return false; }
};
extern "C" void h_header(void) {
  char buf[NB]; verif_fill(buf, NB);
  uint32_t n = nondet_u32(); verif_assume(n <= NB);
  DecoderBuffer db;
  db.Init(buf, n, nondet_u16());                     // the buffer may have been used for another stream before
  db.Init(buf, n);                                   // two-argument Init keeps the old version
  StopDecoder dec; dec.type = nondet_bool() ? TRIANGULAR_MESH : POINT_CLOUD;
  verif_assume(n < 11 || !((uint8_t)buf[10] & 0x80));  // no metadata block (METADATA_FLAG_MASK): the metadata tree is outside reach
  DecoderOptions opt; PointCloud pc;
  const Status st = dec.Decode(opt, &db, &pc);
  verif_assert(!st.ok(), "the stopped decoder never reports success");
  const bool full = n >= 11 && buf[0] == 'D' && buf[1] == 'R' && buf[2] == 'A' && buf[3] == 'C' && buf[4] == 'O';
  if (full && (uint8_t)buf[7] == (uint8_t)dec.type) {
    const uint8_t maj = (uint8_t)buf[5], mnr = (uint8_t)buf[6];
    const uint8_t max_minor = dec.type == POINT_CLOUD ? 3 : 2;
    const bool supported = maj >= 1 && (maj < 2 || (maj == 2 && mnr <= max_minor));
    verif_assert(dec.reached == supported, "exactly the versions 1.0 .. 2.2 (mesh) / 2.3 (point cloud) pass the version gate");
    if (!supported) verif_assert(st.code() == Status::UNKNOWN_VERSION, "newer versions are rejected with a version error");
    if (supported) verif_assert(dec.seen_version == (uint16_t)((maj << 8) | mnr), "later version gates see the version of THIS header, not the buffer's previous one");
  } else {
    verif_assert(!dec.reached, "a truncated / foreign / mismatching header never reaches the decoder");
  }
  verif_assert(db.decoded_size() <= (int64_t)n, "never reads past the input");
  verif_reach();
}
