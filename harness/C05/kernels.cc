// C05: format-defining decoder kernels.  Each entry reads symbolic inputs, runs one real kernel and reports everything
// observable through verif_observe().  The check proves  current(x) == frozen(x)  for all x within the bound, where the
// frozen side is the C translation of this same file generated from the pinned revision (committed in /verif/frozen).
#include "verif.h"
#include "draco/core/bit_utils.cc"
#include "draco/core/decoder_buffer.cc"
#include "draco/core/quantization_utils.cc"
#include "draco/core/varint_decoding.h"
#include "draco/compression/config/compression_shared.h"
#include "draco/compression/entropy/ans.h"
#include "draco/compression/entropy/rans_symbol_coding.h"
#include "draco/compression/entropy/rans_symbol_decoder.h"
#include "draco/compression/entropy/symbol_decoding.h"
#include "draco/compression/bit_coders/rans_bit_decoder.h"
#include "draco/compression/bit_coders/rans_bit_decoder.cc"
#include "draco/compression/bit_coders/direct_bit_decoder.h"
#include "draco/compression/bit_coders/direct_bit_decoder.cc"
#include "draco/compression/attributes/normal_compression_utils.h"
#include "draco/compression/attributes/prediction_schemes/mesh_prediction_scheme_constrained_multi_parallelogram_shared.h"
#include "draco/compression/attributes/prediction_schemes/mesh_prediction_scheme_parallelogram_shared.h"
#include "draco/compression/attributes/prediction_schemes/prediction_scheme_normal_octahedron_canonicalized_decoding_transform.h"
#include "draco/compression/attributes/prediction_schemes/prediction_scheme_normal_octahedron_decoding_transform.h"
#include "draco/compression/attributes/prediction_schemes/prediction_scheme_wrap_decoding_transform.h"
#include "draco/compression/mesh/mesh_edgebreaker_shared.h"
#include <string.h>
using namespace draco;
#define OBS(x) verif_observe((uint64_t)(x))
static inline uint32_t fb(float f) { uint32_t u; memcpy(&u, &f, 4); return u; }

#define NBUF 10
struct Buf {
  char b[NBUF]; uint32_t n; DecoderBuffer db;
  void init() { verif_fill(b, NBUF); n = nondet_u32(); verif_assume(n <= NBUF); uint16_t ver = nondet_u16(); db.Init(b, n, ver); }
  void done() { OBS(db.decoded_size()); OBS(db.bit_decoder_active()); }
};

extern "C" void k_constants(void) {
  // every value that is written to / read from the stream as a number
  OBS(kDracoPointCloudBitstreamVersionMajor); OBS(kDracoPointCloudBitstreamVersionMinor);
  OBS(kDracoMeshBitstreamVersionMajor); OBS(kDracoMeshBitstreamVersionMinor);
  OBS(kDracoPointCloudBitstreamVersion); OBS(kDracoMeshBitstreamVersion);
  OBS(INVALID_GEOMETRY_TYPE); OBS(POINT_CLOUD); OBS(TRIANGULAR_MESH); OBS(NUM_ENCODED_GEOMETRY_TYPES);
  OBS(POINT_CLOUD_SEQUENTIAL_ENCODING); OBS(POINT_CLOUD_KD_TREE_ENCODING);
  OBS(MESH_SEQUENTIAL_ENCODING); OBS(MESH_EDGEBREAKER_ENCODING);
  OBS(BASIC_ATTRIBUTE_ENCODER); OBS(MESH_TRAVERSAL_ATTRIBUTE_ENCODER); OBS(KD_TREE_ATTRIBUTE_ENCODER);
  OBS(SEQUENTIAL_ATTRIBUTE_ENCODER_GENERIC); OBS(SEQUENTIAL_ATTRIBUTE_ENCODER_INTEGER);
  OBS(SEQUENTIAL_ATTRIBUTE_ENCODER_QUANTIZATION); OBS(SEQUENTIAL_ATTRIBUTE_ENCODER_NORMALS);
  OBS(PREDICTION_NONE); OBS(PREDICTION_UNDEFINED); OBS(PREDICTION_DIFFERENCE); OBS(MESH_PREDICTION_PARALLELOGRAM);
  OBS(MESH_PREDICTION_MULTI_PARALLELOGRAM); OBS(MESH_PREDICTION_TEX_COORDS_DEPRECATED);
  OBS(MESH_PREDICTION_CONSTRAINED_MULTI_PARALLELOGRAM); OBS(MESH_PREDICTION_TEX_COORDS_PORTABLE);
  OBS(MESH_PREDICTION_GEOMETRIC_NORMAL); OBS(NUM_PREDICTION_SCHEMES);
  OBS(PREDICTION_TRANSFORM_NONE); OBS(PREDICTION_TRANSFORM_DELTA); OBS(PREDICTION_TRANSFORM_WRAP);
  OBS(PREDICTION_TRANSFORM_NORMAL_OCTAHEDRON); OBS(PREDICTION_TRANSFORM_NORMAL_OCTAHEDRON_CANONICALIZED);
  OBS(NUM_PREDICTION_SCHEME_TRANSFORM_TYPES);
  OBS(MESH_TRAVERSAL_DEPTH_FIRST); OBS(MESH_TRAVERSAL_PREDICTION_DEGREE); OBS(NUM_TRAVERSAL_METHODS);
  OBS(MESH_EDGEBREAKER_STANDARD_ENCODING); OBS(MESH_EDGEBREAKER_PREDICTIVE_ENCODING); OBS(MESH_EDGEBREAKER_VALENCE_ENCODING);
  OBS(ONE_TRIANGLE); OBS(TRIANGLE_AREA);
  OBS(SYMBOL_CODING_TAGGED); OBS(SYMBOL_CODING_RAW); OBS(NUM_SYMBOL_CODING_METHODS);
  OBS(METADATA_FLAG_MASK);
  OBS(TOPOLOGY_C); OBS(TOPOLOGY_S); OBS(TOPOLOGY_L); OBS(TOPOLOGY_R); OBS(TOPOLOGY_E);
  OBS(EDGEBREAKER_SYMBOL_C); OBS(EDGEBREAKER_SYMBOL_S); OBS(EDGEBREAKER_SYMBOL_L); OBS(EDGEBREAKER_SYMBOL_R); OBS(EDGEBREAKER_SYMBOL_E);
  for (int i = 0; i < 8; ++i) { OBS(edge_breaker_topology_bit_pattern_length[i]); OBS(edge_breaker_topology_to_symbol_id[i]); }
  for (int i = 0; i < 5; ++i) OBS(edge_breaker_symbol_to_topology_id[i]);
  OBS(constrained_multi_parallelogram::kMaxNumParallelograms); OBS(constrained_multi_parallelogram::OPTIMAL_MULTI_PARALLELOGRAM);
  OBS(LEFT_FACE_EDGE); OBS(RIGHT_FACE_EDGE); OBS(EDGEBREAKER_VALENCE_MODE_2_7);
  OBS(sizeof(DracoHeader));
  // widths of the in-memory tables that hold decoded symbol ids / probabilities (a narrower type silently truncates)
  { RAnsDecoder<12> d; OBS(sizeof(d.lut_table_[0])); OBS(sizeof(d.probability_table_[0].prob)); OBS(sizeof(d.probability_table_[0].cum_prob));
    RAnsSymbolDecoder<5> sd; OBS(sizeof(sd.probability_table_[0])); OBS(sizeof(sd.num_symbols_));
    AnsDecoder ad; OBS(sizeof(ad.state)); rans_dec_sym rs; OBS(sizeof(rs.val)); }
  OBS(DRACO_BITSTREAM_VERSION(2, 2)); OBS(DRACO_BITSTREAM_VERSION(1, 1));
  verif_reach();
}

extern "C" void k_precision(void) {
  int b = nondet_i32(); verif_assume(b >= 0 && b <= 40);
  OBS(ComputeRAnsPrecisionFromUniqueSymbolsBitLength(b)); OBS(ComputeRAnsUnclampedPrecision(b));
  verif_reach();
}

template <typename T> static void kvarint() {
  Buf in; in.init();
  T v = 0; const bool ok = DecodeVarint(&v, &in.db);
  OBS(ok); if (ok) OBS(v);
  in.done(); verif_reach();
}
extern "C" void k_varint_u32(void) { kvarint<uint32_t>(); }
extern "C" void k_varint_u64(void) { kvarint<uint64_t>(); }
extern "C" void k_varint_i32(void) { kvarint<int32_t>(); }

extern "C" void k_zigzag(void) {
  OBS((uint32_t)ConvertSymbolToSignedInt(nondet_u32())); OBS((uint64_t)ConvertSymbolToSignedInt(nondet_u64()));
  verif_reach();
}

extern "C" void k_wrap_dec(void) {
  Buf in; in.init();
  PredictionSchemeWrapDecodingTransform<int32_t> t;
  t.PredictionSchemeWrapTransformBase<int32_t>::Init(1);
  const bool ok = t.DecodeTransformData(&in.db);
  OBS(ok);
  if (ok) {
    int32_t pred = nondet_i32(), corr = nondet_i32(), out = 0;
    t.ComputeOriginalValue(&pred, &corr, &out);
    OBS((uint32_t)out);
  }
  in.done(); verif_reach();
}

template <class Dec> static void koct() {
  Buf in; in.init();
  Dec t;
  const bool ok = t.DecodeTransformData(&in.db);
  OBS(ok);
#ifdef QC
  if (ok) verif_assume(t.max_quantized_value() == (1 << QC) - 1);   // one query per quantization
#endif
  if (ok) {
    OBS(t.quantization_bits()); OBS(t.max_quantized_value()); OBS(t.center_value());
    int32_t pred[2] = {nondet_i32(), nondet_i32()}, corr[2] = {nondet_i32(), nondet_i32()}, out[2] = {0, 0};
    // inputs the decoder can see after a successful DecodeTransformData: values inside the square
    verif_assume(pred[0] >= 0 && pred[0] <= 2 * t.center_value() && pred[1] >= 0 && pred[1] <= 2 * t.center_value());
    verif_assume(corr[0] >= 0 && corr[0] <= 2 * t.center_value() && corr[1] >= 0 && corr[1] <= 2 * t.center_value());
    t.ComputeOriginalValue(pred, corr, out);
    OBS((uint32_t)out[0]); OBS((uint32_t)out[1]);
  }
  in.done(); verif_reach();
}
extern "C" void k_oct_canon_dec(void) { koct<PredictionSchemeNormalOctahedronCanonicalizedDecodingTransform<int32_t>>(); }
extern "C" void k_oct_plain_dec(void) { koct<PredictionSchemeNormalOctahedronDecodingTransform<int32_t>>(); }

#define NC 6
#define NE 4
struct LiteTable {
  uint32_t c2v[NC]; uint32_t opp[NC];
  CornerIndex Opposite(CornerIndex c) const { return c == kInvalidCornerIndex ? c : CornerIndex(opp[c.value()]); }
  CornerIndex Next(CornerIndex c) const { return c == kInvalidCornerIndex ? c : ((c.value() % 3) == 2 ? c - 2 : c + 1); }
  CornerIndex Previous(CornerIndex c) const { return c == kInvalidCornerIndex ? c : ((c.value() % 3) == 0 ? c + 2 : c - 1); }
  VertexIndex Vertex(CornerIndex c) const { return c == kInvalidCornerIndex ? kInvalidVertexIndex : VertexIndex(c2v[c.value()]); }
};
extern "C" void k_pgram(void) {
  LiteTable ct; int32_t v2d_s[NE]; std::vector<int32_t> v2d;
  for (int c = 0; c < NC; ++c) {
    uint32_t v = nondet_u32(); verif_assume(v < NE); ct.c2v[c] = v;
    uint32_t o = nondet_u32(); verif_assume(o < NC || o == kInvalidCornerIndex.value()); ct.opp[c] = o;
  }
  for (int i = 0; i < NE; ++i) { int32_t d = nondet_i32(); verif_assume(d >= 0 && d < NE); v2d_s[i] = d; }
  verif_adopt(v2d, v2d_s, NE, NE);
  int p = nondet_i32(); verif_assume(p >= 0 && p < NE);
  uint32_t ci = nondet_u32(); verif_assume(ci < NC);
  int32_t data[NE * 2]; for (int i = 0; i < NE * 2; ++i) data[i] = nondet_i32();
  int32_t pred[2] = {0, 0};
  const bool r = ComputeParallelogramPrediction(p, CornerIndex(ci), &ct, v2d, data, 2, pred);
  OBS(r); if (r) { OBS((uint32_t)pred[0]); OBS((uint32_t)pred[1]); }
  verif_release(v2d); verif_reach();
}

template <int PB> static void krans_init() {
  uint8_t buf[8]; verif_fill(buf, 8);
  int off = nondet_i32(); verif_assume(off >= 0 && off <= 4);
  RAnsDecoder<PB> d;
  const int err = d.read_init(buf + 4, off);      // 4 bytes of context precede the payload
  OBS(err); if (!err) { OBS(d.ans_.state); OBS(d.ans_.buf_offset); OBS(d.read_end()); OBS(d.reader_has_error()); }
  verif_reach();
}
extern "C" void k_rans_init12(void) { krans_init<12>(); }
extern "C" void k_rans_init20(void) { krans_init<20>(); }

template <int PB> static void krans_read() {
  constexpr uint32_t P = 1u << PB, L = 4 * P;
  uint8_t buf[4]; verif_fill(buf, 4);
  RAnsDecoder<PB> dec;
  uint32_t x = nondet_u32(); verif_assume(x < L * 256u);
  int off = nondet_i32(); verif_assume(off >= 0 && off <= 4);
  dec.ans_.buf = buf; dec.ans_.buf_offset = off; dec.ans_.state = x;
  // one-cell table: only the slot the decoder must look up is backed by storage
  uint32_t y = x; int o = off;
  while (y < L && o > 0) { y = y * 256 + buf[--o]; }
  const uint32_t rem = y & (P - 1);
  typename decltype(dec.lut_table_)::value_type lut_slot[1]; rans_sym ptab[4];   // element type taken from the code under test
  uint32_t s = nondet_u32(); verif_assume(s < 4);
  lut_slot[0] = s;
  ptab[s].prob = nondet_u32(); ptab[s].cum_prob = nondet_u32();
  verif_assume(ptab[s].prob >= 1 && ptab[s].prob <= P && ptab[s].cum_prob <= rem && rem - ptab[s].cum_prob < ptab[s].prob);
  dec.lut_table_._M_impl._M_start = lut_slot - rem; dec.lut_table_._M_impl._M_finish = lut_slot - rem + P;
  dec.probability_table_._M_impl._M_start = ptab; dec.probability_table_._M_impl._M_finish = ptab + 4;
  const int got = dec.rans_read();
  OBS(got); OBS(dec.ans_.state); OBS(dec.ans_.buf_offset);
  verif_release(dec.lut_table_); verif_release(dec.probability_table_);
  verif_reach();
}
extern "C" void k_rans_read12(void) { krans_read<12>(); }
extern "C" void k_rans_read20(void) { krans_read<20>(); }

extern "C" void k_rabs_read(void) {
  uint8_t buf[2]; verif_fill(buf, 2);
  AnsDecoder d; d.buf = buf; d.state = nondet_u32(); d.buf_offset = nondet_u8() % 3;
  verif_assume(d.state < 4096u * 256u);
  const uint8_t p0 = nondet_u8();
  const int bit = rabs_desc_read(&d, p0);
  OBS(bit); OBS(d.state); OBS(d.buf_offset);
  verif_reach();
}
extern "C" void k_ans_init(void) {
  uint8_t buf[4]; verif_fill(buf, 4);
  int off = nondet_i32(); verif_assume(off >= 0 && off <= 4);
  AnsDecoder d; const int err = ans_read_init(&d, buf, off);
  OBS(err); if (!err) { OBS(d.state); OBS(d.buf_offset); OBS(ans_read_end(&d)); }
  verif_reach();
}

template <int USB> static void krans_tab() {
  Buf in; in.init();
  verif_assume(in.n >= 1); in.db.Advance(1);               // the scheme byte consumed by DecodeSymbols
  RAnsSymbolDecoder<USB> dec;
  const bool ok = dec.Create(&in.db);                       // LUT build cut (returns true)
  OBS(ok);
  if (ok) {
    OBS(dec.num_symbols());
    for (uint32_t i = 0; i < 4; ++i) if (i < dec.num_symbols()) OBS(dec.probability_table_[i]);
    const bool ok2 = dec.StartDecoding(&in.db);
    OBS(ok2); if (ok2) { OBS(dec.ans_.ans_.state); OBS(dec.ans_.ans_.buf_offset); }
  }
  in.done(); verif_reach();
}
extern "C" void k_rans_tab5(void) { krans_tab<5>(); }
extern "C" void k_rans_tab18(void) { krans_tab<18>(); }

extern "C" void k_bit_start(void) {
  Buf in; in.init();
  uint64_t sz = 0; const bool ds = nondet_bool();
  const bool ok = in.db.StartBitDecoding(ds, &sz);
  OBS(ok);
  if (ok) { if (ds) OBS(sz); uint32_t v = 0; const uint32_t w = nondet_u8() % 34; OBS(in.db.DecodeLeastSignificantBits32(w, &v)); OBS(v); in.db.EndBitDecoding(); }
  in.done(); verif_reach();
}
extern "C" void k_rans_bit_start(void) {
  Buf in; in.init();
  RAnsBitDecoder d; const bool ok = d.StartDecoding(&in.db);
  OBS(ok); if (ok) { OBS(d.prob_zero_); OBS(d.ans_decoder_.state); OBS(d.ans_decoder_.buf_offset); OBS(d.DecodeNextBit()); }
  in.done(); verif_reach();
}
extern "C" void k_direct_start(void) {
  Buf in; in.init();
  DirectBitDecoder d; const bool ok = d.StartDecoding(&in.db);
  OBS(ok);
  if (ok) { uint32_t v = 0; const int w = 1 + (nondet_u8() & 31); const bool g = d.DecodeLeastSignificantBits32(w, &v); OBS(g); if (g) OBS(v); OBS(d.DecodeNextBit()); }
  in.done(); verif_reach();
}

extern "C" void k_dequant(void) {
  Dequantizer dq; const float range = nondet_float(); const int32_t maxq = nondet_i32();
  const bool ok = dq.Init(range, maxq);
  OBS(ok); if (ok) OBS(fb(dq.DequantizeFloat(nondet_i32())));
  Dequantizer d2; d2.Init(nondet_float()); OBS(fb(d2.DequantizeFloat(nondet_i32())));
  verif_reach();
}
extern "C" void k_oct_unit(void) {
  OctahedronToolBox tb; const int q = nondet_i32();
#ifdef QC
  verif_assume(q == QC);
#endif
  const bool ok = tb.SetQuantizationBits(q);
  OBS(ok);
  if (ok) {
    OBS(tb.max_quantized_value()); OBS(tb.max_value()); OBS(tb.center_value());
    int32_t s = nondet_i32(), t = nondet_i32();
    verif_assume(s >= 0 && s <= tb.max_value() && t >= 0 && t <= tb.max_value());
    float v[3]; tb.QuantizedOctahedralCoordsToUnitVector(s, t, v);
    OBS(fb(v[0])); OBS(fb(v[1])); OBS(fb(v[2]));
    int32_t cs, ct; tb.CanonicalizeOctahedralCoords(s, t, &cs, &ct); OBS(cs); OBS(ct);
  }
  verif_reach();
}

// ---- texture-coordinate (portable) predictor, decoder side, on an arbitrary in-range table and real position attribute
#include "draco/attributes/geometry_attribute.cc"
#include "draco/attributes/point_attribute.cc"
#include "draco/core/data_buffer.cc"
#include "draco/core/draco_types.cc"
#include "draco/compression/attributes/prediction_schemes/mesh_prediction_scheme_tex_coords_portable_predictor.h"
struct LiteMD {
  typedef LiteTable CornerTable;
  const LiteTable *t; const std::vector<int32_t> *v2d;
  const LiteTable *corner_table() const { return t; }
  const std::vector<int32_t> *vertex_to_data_map() const { return v2d; }
};
extern "C" void k_texcoords(void) {
  LiteTable ct; int32_t v2d_s[NE]; std::vector<int32_t> v2d;
  for (int c = 0; c < NC; ++c) { uint32_t v = nondet_u32(); verif_assume(v < NE); ct.c2v[c] = v; ct.opp[c] = kInvalidCornerIndex.value(); }
  for (int i = 0; i < NE; ++i) { int32_t d = nondet_i32(); verif_assume(d >= 0 && d < NE); v2d_s[i] = d; }
  verif_adopt(v2d, v2d_s, NE, NE);
  LiteMD md{&ct, &v2d};
  // position attribute over harness-owned storage (no allocation / size arithmetic in the set-up)
  int32_t store[NE * 3];
#ifdef DEGENERATE_POSITIONS
  for (int i = 0; i < NE * 3; ++i) store[i] = 7;     // all positions coincide: only the delta-coding fall-back paths run
#else
  for (int i = 0; i < NE * 3; ++i) { store[i] = nondet_i32(); verif_assume(store[i] >= -(1 << 21) && store[i] < (1 << 21)); }  // quantized positions
#endif
  DataBuffer buf; verif_adopt(buf.data_, (uint8_t *)store, sizeof(store), sizeof(store));
  GeometryAttribute ga; ga.Init(GeometryAttribute::POSITION, &buf, 3, DT_INT32, false, 12, 0);
  PointAttribute pos(ga); pos.SetIdentityMapping(); pos.num_unique_entries_ = NE;
  PointIndex ids[NE]; for (int i = 0; i < NE; ++i) ids[i] = PointIndex(i);
  MeshPredictionSchemeTexCoordsPortablePredictor<int32_t, LiteMD> pr(md);
  pr.SetPositionAttribute(pos); pr.SetEntryToPointIdMap(ids);
  pr.ResizeOrientations(1); pr.set_orientation(0, nondet_bool());
  int32_t data[NE * 2]; for (int i = 0; i < NE * 2; ++i) data[i] = nondet_i32();
  int data_id = nondet_i32(); verif_assume(data_id >= 0 && data_id < NE);
  uint32_t ci = nondet_u32(); verif_assume(ci < NC);
  const bool ok = pr.ComputePredictedValue<false>(CornerIndex(ci), data, data_id);
  OBS(ok); if (ok) { OBS((uint32_t)pr.predicted_value()[0]); OBS((uint32_t)pr.predicted_value()[1]); }
  OBS(pr.num_orientations());
  verif_release(v2d); verif_release(buf.data_); verif_reach();
}
extern "C" void k_intsqrt(void) {
  uint64_t n = nondet_u64(); verif_assume(n < (1ull << 20));
  OBS(IntSqrt(n));
  verif_reach();
}

// ---- sequential mesh connectivity block: which index width is read for which number of points (Mesh::AddFace cut)
#include "draco/compression/mesh/mesh_sequential_decoder.h"
#include "draco/compression/mesh/mesh_sequential_decoder.cc"
#include "draco/compression/mesh/mesh_decoder.cc"
#include "draco/compression/point_cloud/point_cloud_decoder.cc"
#include "draco/mesh/mesh.cc"
#include "draco/point_cloud/point_cloud.cc"
extern "C" void k_seq_conn(void) {
  Buf in; in.init();
  Mesh mesh;
  MeshSequentialDecoder dec;
  dec.buffer_ = &in.db; dec.point_cloud_ = &mesh; dec.mesh_ = &mesh;
  const bool v22 = nondet_bool();
  in.db.set_bitstream_version(v22 ? DRACO_BITSTREAM_VERSION(2, 2) : DRACO_BITSTREAM_VERSION(2, 1));
  dec.version_major_ = 2; dec.version_minor_ = v22 ? 2 : 1;
  const bool ok = dec.MeshSequentialDecoder::DecodeConnectivity();
  OBS(ok); if (ok) OBS(mesh.num_points());
  in.done(); verif_reach();
}
