// Contract model of one libstdc++ function: std::vector<char>::insert(end(), first, last) as used by
// draco::EncoderBuffer::Encode.  The real _M_range_insert branches on the remaining capacity and may reallocate; with a
// symbolic write position CBMC's symbolic execution then explores reallocation at every call.  Harnesses whose subject is
// NOT buffer growth include this header first and reserve() enough capacity; the model asserts that the capacity
// suffices and appends.  Real growth through the unmodified libstdc++ code is covered by C17.varint_grow_*.
// (Listed in the trusted base of every obligation that uses it.)
#ifndef VERIF_VECMODEL_H_
#define VERIF_VECMODEL_H_
#include <string.h>
#include <vector>
#include "verif.h"
template <>
template <>
inline void std::vector<char>::_M_range_insert(iterator pos, const unsigned char *first, const unsigned char *last,
                                               std::forward_iterator_tag) {
  const size_t n = last - first;
  verif_assert(pos.base() == this->_M_impl._M_finish, "vector model: insertion point is end()");
  verif_assert((size_t)(this->_M_impl._M_end_of_storage - this->_M_impl._M_finish) >= n,
               "vector model: the capacity reserved by the harness suffices");
  memcpy(this->_M_impl._M_finish, first, n);
  this->_M_impl._M_finish += n;
}
#endif
