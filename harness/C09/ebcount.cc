// C09.eb_point_count: the number of points the Edgebreaker ENCODER reports (MeshEdgebreakerEncoder::
// ComputeNumberOfEncodedPoints: "one new point per attribute seam sector, replicating what the decoder would do") equals
// the number of points the DECODER creates (MeshEdgebreakerDecoderImpl::AssignPointsToCorners) when both work on the
// same connectivity: ANY corner table satisfying the C13 invariants, ANY attribute corner->vertex map (shared by both
// sides), boundary / seam flags consistent with them, and ANY corner -> point id map of the input mesh that is
// compatible with that connectivity.  (That the decoder reconstructs the encoder's connectivity is C01 and assumed.)
#include "verif.h"
#include "verif_vecmodel_fill.h"
#include "verif_vecmodel_grow.h"
#include "draco/compression/mesh/mesh_edgebreaker_decoder.h"
#include "draco/compression/mesh/mesh_edgebreaker_encoder.h"
#include "draco/compression/mesh/mesh_edgebreaker_decoder_impl.h"
using namespace draco;
#ifndef NF
#define NF 2
#endif
#ifndef NV
#define NV 4
#endif
#ifndef NA
#define NA 1
#endif
#ifndef PREFIX
#define PREFIX 0
#endif
#define NC (3 * NF)
typedef Mesh::Face MeshFace;
VERIF_VEC_FILL_MODEL(MeshFace)
VERIF_VEC_PREFIX_MODEL(int, NC)
#include "draco/compression/mesh/mesh_edgebreaker_decoder_impl.cc"
#include "draco/compression/mesh/mesh_edgebreaker_decoder.cc"
#include "draco/compression/mesh/mesh_edgebreaker_encoder.cc"
#include "draco/compression/mesh/mesh_encoder.cc"
#include "draco/compression/point_cloud/point_cloud_encoder.cc"
#include "draco/compression/mesh/mesh_decoder.cc"
#include "draco/compression/point_cloud/point_cloud_decoder.cc"
#include "draco/compression/bit_coders/rans_bit_decoder.cc"
#include "draco/mesh/corner_table.cc"
#include "draco/mesh/mesh_attribute_corner_table.cc"
#include "draco/core/decoder_buffer.cc"
#include "draco/core/bit_utils.cc"
#include "draco/mesh/mesh.cc"
#include "draco/point_cloud/point_cloud.cc"
#include "draco/attributes/point_attribute.cc"
#include "draco/attributes/geometry_attribute.cc"
#include "draco/core/data_buffer.cc"
#include "draco/core/draco_types.cc"
typedef MeshEdgebreakerDecoderImpl<MeshEdgebreakerTraversalDecoder> Impl;
static inline uint32_t nx(uint32_t c) { return c % 3 == 2 ? c - 2 : c + 1; }
static inline uint32_t pv(uint32_t c) { return c % 3 == 0 ? c + 2 : c - 1; }
static const uint32_t INV = 0xffffffffu;
static inline uint32_t swr(const uint32_t *opp, uint32_t c) { const uint32_t o = opp[pv(c)]; return o == INV ? INV : pv(o); }
static inline uint32_t swl(const uint32_t *opp, uint32_t c) { const uint32_t o = opp[nx(c)]; return o == INV ? INV : nx(o); }

struct LiteEncImpl : public MeshEdgebreakerEncoderImplInterface {
  const CornerTable *ct; const MeshAttributeCornerTable *att[NA + 1];
  bool Init(MeshEdgebreakerEncoder *) override { return true; }
  const MeshAttributeCornerTable *GetAttributeCornerTable(int att_id) const override { return (att_id >= 0 && att_id <= NA) ? att[att_id] : nullptr; }
  const MeshAttributeIndicesEncodingData *GetAttributeEncodingData(int) const override { return nullptr; }
  bool GenerateAttributesEncoder(int32_t) override { return false; }
  bool EncodeAttributesEncoderIdentifier(int32_t) override { return false; }
  Status EncodeConnectivity() override { return OkStatus(); }
  const CornerTable *GetCornerTable() const override { return ct; }
  bool IsFaceEncoded(FaceIndex) const override { return false; }
  MeshEdgebreakerEncoder *GetEncoder() const override { return nullptr; }
};
extern "C" void h_eb_point_count(void) {
  // ---- corner table: arbitrary state satisfying the C13 invariants ----
  VertexIndex c2v_s[NC]; CornerIndex opp_s[NC], vc_s[NV]; uint32_t c2v[NC], opp[NC], vc[NV];
  uint32_t nv = nondet_u32(); verif_assume(nv >= 1 && nv <= NV);
  for (int c = 0; c < NC; ++c) {
    c2v[c] = nondet_u32(); verif_assume(c2v[c] < nv); c2v_s[c] = VertexIndex(c2v[c]);
    opp[c] = nondet_u32(); verif_assume(opp[c] < NC || opp[c] == INV); opp_s[c] = CornerIndex(opp[c]);
  }
  for (uint32_t c = 0; c < NC; ++c) {
    const uint32_t o = opp[c];
    if (o != INV) verif_assume(opp[o] == c && o / 3 != c / 3 && c2v[nx(c)] == c2v[pv(o)] && c2v[pv(c)] == c2v[nx(o)]);
  }
  for (uint32_t v = 0; v < NV; ++v) {
    vc[v] = nondet_u32(); verif_assume(vc[v] < NC || vc[v] == INV); vc_s[v] = CornerIndex(vc[v]);
    if (v < nv && vc[v] != INV) {
      verif_assume(c2v[vc[v]] == v);
      const uint32_t l = swl(opp, vc[v]);                       // representative corner = left-most corner of an open fan
      verif_assume(l == INV || ({ uint32_t cur = vc[v]; int closed = 0; for (int k = 0; k < NF; ++k) { cur = swr(opp, cur); if (cur == INV) break; if (cur == vc[v]) { closed = 1; break; } } closed; }));
    }
  }
  for (uint32_t c = 0; c < NC; ++c) {                           // every corner lies on the fan of its vertex
    const uint32_t rep = vc[c2v[c]];
    verif_assume(rep != INV);
    uint32_t cur = rep; int found = 0;
    for (int k = 0; k < NF; ++k) { if (cur == c) found = 1; cur = swr(opp, cur); if (cur == INV || cur == rep) break; }
    verif_assume(found);
  }
  CornerTable ct;
  verif_adopt(ct.corner_to_vertex_map_.vector_, c2v_s, NC, NC);
  verif_adopt(ct.opposite_corners_.vector_, opp_s, NC, NC);
  verif_adopt(ct.vertex_corners_.vector_, vc_s, nv, NV);
  // ---- decoder objects ----
  Mesh mesh; MeshFace face_s[NF];
  verif_adopt(mesh.faces_.vector_, face_s, 0, NF);
  MeshEdgebreakerDecoder dec; dec.mesh_ = &mesh; dec.point_cloud_ = &mesh;
  Impl impl; impl.decoder_ = &dec;
  impl.corner_table_.reset(&ct);
  unsigned long hole_w[1] = {nondet_u64()};
  // assumed decoder invariant: a vertex that is NOT flagged as a hole is interior (its fan is closed).  The connectivity
  // decoder starts with every vertex flagged and clears the flag only when a TOPOLOGY_C symbol (or an interior initial
  // face) closes the fan.  Without it AssignPointsToCorners can leave corners unassigned (see DESIGN.md, C03).
  for (uint32_t v = 0; v < NV; ++v)
    if (v < nv && vc[v] != INV && !((hole_w[0] >> v) & 1)) verif_assume(swl(opp, vc[v]) != INV);
  verif_adopt_bits(impl.is_vert_hole_, hole_w, nv, 1);
  // ---- attribute connectivity: arbitrary ----
  Impl::AttributeData slots[NA > 0 ? NA : 1];
  VertexIndex a2v_s[NA > 0 ? NA : 1][NC]; uint32_t a2v[NA > 0 ? NA : 1][NC]; unsigned long seam_w[NA > 0 ? NA : 1][1];
  uint32_t na = nondet_u32(); verif_assume(na <= NA);
  for (int i = 0; i < NA; ++i) {
    for (int c = 0; c < NC; ++c) { a2v[i][c] = nondet_u32(); verif_assume(a2v[i][c] < NC); a2v_s[i][c] = VertexIndex(a2v[i][c]); }
    seam_w[i][0] = nondet_u64();
    verif_adopt(slots[i].connectivity_data.corner_to_vertex_map_, a2v_s[i], NC, NC);
    verif_adopt_bits(slots[i].connectivity_data.is_vertex_on_seam_, seam_w[i], nv, 1);
    slots[i].connectivity_data.corner_table_ = &ct;
  }
  verif_adopt(impl.attribute_data_, slots, na, NA > 0 ? NA : 1);
  // ---- linking assumptions: flags consistent with the connectivity ----
  verif_assume(na == NA);                                   // one attribute connectivity on both sides
  uint32_t n_iso = 0;
  for (uint32_t v = 0; v < NV; ++v) if (v < nv) {
    if (vc[v] == INV) { ++n_iso; continue; }
    verif_assume((((hole_w[0] >> v) & 1) != 0) == (swl(opp, vc[v]) == INV));          // hole flag <=> open fan
    uint32_t cur = vc[v];                                                               // an attribute change inside the fan => the vertex is flagged as on a seam
    for (int k = 0; k < NF; ++k) { const uint32_t nxt = swr(opp, cur); if (nxt == INV) break; for (int i = 0; i < NA; ++i) if (a2v[i][nxt] != a2v[i][cur]) verif_assume((seam_w[i][0] >> v) & 1); if (nxt == vc[v]) break; cur = nxt; }
  }
  ct.num_isolated_vertices_ = (int)n_iso;
  { const uint32_t no = nondet_u32(); verif_assume(no >= 1 && no <= nv); ct.num_original_vertices_ = (int)no; }   // the vertices beyond it are the copies made for non-manifold vertices
  // ---- the input mesh of the encoder: corner -> point id, compatible with the connectivity ----
  uint32_t pt[NC]; MeshFace eface_s[NF];
  for (int c = 0; c < NC; ++c) { pt[c] = nondet_u32(); verif_assume(pt[c] < NC); eface_s[c / 3][c % 3] = PointIndex(pt[c]); }
  for (int c = 0; c < NC; ++c) for (int d = 0; d < NC; ++d) {
    int same_att = 1; for (int i = 0; i < NA; ++i) same_att = same_att && a2v[i][c] == a2v[i][d];
    if (pt[c] == pt[d]) verif_assume(c2v[c] == c2v[d] && same_att);                   // a point has one position and one value per attribute
#ifdef DEDUPLICATED_INPUT   // known finding F16 excluded
    else verif_assume(!(c2v[c] == c2v[d] && same_att));                               // deduplicated input: different points differ somewhere
#endif
  }
  Mesh emesh; verif_adopt(emesh.faces_.vector_, eface_s, NF, NF);
  PointAttribute eatt[NA + 1]; std::unique_ptr<PointAttribute> eatt_slots[NA + 1];
  eatt[0].GeometryAttribute::Init(GeometryAttribute::POSITION, nullptr, 3, DT_FLOAT32, false, 12, 0);
  for (int i = 1; i <= NA; ++i) eatt[i].GeometryAttribute::Init(GeometryAttribute::GENERIC, nullptr, 1, DT_INT32, false, 4, 0);
  for (int i = 0; i <= NA; ++i) eatt_slots[i].reset(&eatt[i]);
  verif_adopt(emesh.attributes_, eatt_slots, NA + 1, NA + 1);
  LiteEncImpl limpl; limpl.ct = &ct; limpl.att[0] = nullptr; for (int i = 0; i < NA; ++i) limpl.att[i + 1] = &slots[i].connectivity_data;
  MeshEdgebreakerEncoder enc; enc.mesh_ = &emesh; enc.point_cloud_ = &emesh;
  enc.impl_.reset(&limpl);
  enc.ComputeNumberOfEncodedPoints();
  const uint64_t reported = enc.num_encoded_points();
  verif_observe(reported);
  const uint32_t ncv = nv;
  verif_vec_prefix_int = 0; verif_vec_prefix_armed_int = true;   // the model of the decoder's local point list (no earlier points), armed right before the call
  const bool ok = impl.AssignPointsToCorners((int)ncv);
  verif_observe(ok);
  verif_assert(ok, "the decoder accepts this connectivity");
  if (ok) {
    verif_observe(mesh.num_points());
    verif_assert(reported == (uint64_t)mesh.num_points(), "the number of points reported by the encoder equals the number of points the decoder creates");
  }
  enc.impl_.release(); for (int i = 0; i <= NA; ++i) eatt_slots[i].release(); verif_release(emesh.attributes_); verif_release(emesh.faces_.vector_);
  // hand the borrowed storage back before the destructors run
  impl.corner_table_.release();
  verif_release(impl.attribute_data_); verif_release_bits(impl.is_vert_hole_);
  for (int i = 0; i < NA; ++i) { verif_release(slots[i].connectivity_data.corner_to_vertex_map_); verif_release_bits(slots[i].connectivity_data.is_vertex_on_seam_); }
  verif_release(ct.corner_to_vertex_map_.vector_); verif_release(ct.opposite_corners_.vector_); verif_release(ct.vertex_corners_.vector_);
  verif_release(mesh.faces_.vector_);
  verif_reach();
}
