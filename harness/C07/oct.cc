// C07: integer side of the octahedral normal quantization.
#include "verif.h"
#include "draco/compression/attributes/normal_compression_utils.h"
#include <math.h>
using namespace draco;

static int pick_q() {
  int q = nondet_i32();
#ifdef QC
  verif_assume(q == QC);
#else
  verif_assume(q >= 2 && q <= 30);
#endif
  return q;
}

extern "C" void h_canon(void) {
  OctahedronToolBox tb;
  const int q = pick_q();
  verif_assert(tb.SetQuantizationBits(q), "q in 2..30 accepted");
  const int32_t mx = tb.max_value();
  int32_t s = nondet_i32(), t = nondet_i32();
  verif_assume(s >= 0 && s <= mx && t >= 0 && t <= mx);
  int32_t cs, ct, cs2, ct2;
  tb.CanonicalizeOctahedralCoords(s, t, &cs, &ct);
  verif_assert(cs >= 0 && cs <= mx && ct >= 0 && ct <= mx, "canonical coordinates stay inside the q-bit square");
  tb.CanonicalizeOctahedralCoords(cs, ct, &cs2, &ct2);
  verif_assert(cs2 == cs && ct2 == ct, "CanonicalizeOctahedralCoords is idempotent");
  verif_reach();
}

extern "C" void h_int2oct(void) {
  OctahedronToolBox tb;
  const int q = pick_q();
  tb.SetQuantizationBits(q);
  const int32_t mx = tb.max_value(), c = tb.center_value();
  int32_t v[3] = {nondet_i32(), nondet_i32(), nondet_i32()};
  verif_assume(v[0] >= -c && v[0] <= c && v[1] >= -c && v[1] <= c && v[2] >= -c && v[2] <= c);
  int64_t as = (int64_t)(v[0] < 0 ? -v[0] : v[0]) + (v[1] < 0 ? -v[1] : v[1]) + (v[2] < 0 ? -v[2] : v[2]);
  verif_assume(as == c);   // documented precondition of IntegerVectorToQuantizedOctahedralCoords
  int32_t s, t, cs, ct;
  tb.IntegerVectorToQuantizedOctahedralCoords(v, &s, &t);
  verif_assert(s >= 0 && s <= mx && t >= 0 && t <= mx, "octahedral coordinates lie inside the q-bit square [0, 2^q-2]^2");
  tb.CanonicalizeOctahedralCoords(s, t, &cs, &ct);
  verif_assert(cs == s && ct == t, "octahedral coordinates are canonical");
  verif_reach();
}

// CanonicalizeIntegerVector: any int32 vector -> abs sum == center (used by the geometric normal predictor)
extern "C" void h_canon_intvec(void) {
  OctahedronToolBox tb;
  const int q = pick_q();
  tb.SetQuantizationBits(q);
  const int32_t c = tb.center_value();
  int32_t v[3] = {nondet_i32(), nondet_i32(), nondet_i32()};
  verif_assume(v[0] != INT32_MIN && v[1] != INT32_MIN && v[2] != INT32_MIN);  // std::abs(INT_MIN) is excluded by the callers' ranges
  tb.CanonicalizeIntegerVector(v);
  int64_t as = (int64_t)(v[0] < 0 ? -(int64_t)v[0] : v[0]) + (v[1] < 0 ? -(int64_t)v[1] : v[1]) + (v[2] < 0 ? -(int64_t)v[2] : v[2]);
  verif_assert(as == c, "CanonicalizeIntegerVector: |x|+|y|+|z| == center value");
  verif_reach();
}

// float -> octahedral coordinates for every float bit pattern except NaN/Inf
extern "C" void h_float2oct(void) {
  OctahedronToolBox tb;
  const int q = pick_q();
  tb.SetQuantizationBits(q);
  const int32_t mx = tb.max_value();
  float v[3] = {nondet_float(), nondet_float(), nondet_float()};
  verif_assume(!isnan(v[0]) && !isinf(v[0]) && !isnan(v[1]) && !isinf(v[1]) && !isnan(v[2]) && !isinf(v[2]));
  int32_t s, t, cs, ct;
  tb.FloatVectorToQuantizedOctahedralCoords(v, &s, &t);
  verif_assert(s >= 0 && s <= mx && t >= 0 && t <= mx, "any finite vector (zero, denormal, huge) maps inside the q-bit square");
  tb.CanonicalizeOctahedralCoords(s, t, &cs, &ct);
  verif_assert(cs == s && ct == t, "result is canonical");
  verif_reach();
}

// direction sanity implied by the angle bound: a strictly dominant component (|v_i| > 2|v_j|) stays the largest component,
// with the same sign, after quantization -- for every finite input incl. huge / tiny magnitudes
extern "C" void h_float2oct_dir(void) {
  OctahedronToolBox tb;
  const int q = pick_q();
  tb.SetQuantizationBits(q);
  const int32_t c = tb.center_value();
  float v[3] = {nondet_float(), nondet_float(), nondet_float()};
  verif_assume(!isnan(v[0]) && !isinf(v[0]) && !isnan(v[1]) && !isinf(v[1]) && !isnan(v[2]) && !isinf(v[2]));
  const int i = nondet_u8() % 3, j = (i + 1) % 3, k = (i + 2) % 3;
  const double ai = fabs((double)v[i]), aj = fabs((double)v[j]), ak = fabs((double)v[k]);
  verif_assume(ai > 1e-5 && ai > 2 * aj && ai > 2 * ak);
  int32_t s, t;
  tb.FloatVectorToQuantizedOctahedralCoords(v, &s, &t);
  // integer inverse of the octahedral unwrapping (mirrors OctahedralCoordsToUnitVector on the integer grid)
  int32_t R[3];
  int32_t Y = s - c, Z = t - c;
  int32_t X = c - (Y < 0 ? -Y : Y) - (Z < 0 ? -Z : Z);
  if (X < 0) { const int32_t off = -X; Y += (Y < 0 ? off : -off); Z += (Z < 0 ? off : -off); }
  R[0] = X; R[1] = Y; R[2] = Z;
  const int32_t Ri = R[i] < 0 ? -R[i] : R[i], Rj = R[j] < 0 ? -R[j] : R[j], Rk = R[k] < 0 ? -R[k] : R[k];
  verif_assert(Ri + 2 >= Rj && Ri + 2 >= Rk, "a strictly dominant component of the normal stays dominant after quantization");
  verif_assert(R[i] != 0 && ((R[i] > 0) == (v[i] > 0)), "the dominant component keeps its sign");
  verif_reach();
}
