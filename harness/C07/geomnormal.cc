// C07.geom_normal_rt / C01: the geometric-normal prediction scheme: the real encoder and decoder glue around the
// predictor (canonicalisation of the predicted 3D normal, flip bit, octahedral mapping, canonicalized octahedron
// transform, prediction data through the stream) round-trips the octahedral normal for ANY predicted normal.
// The predictor itself (area-weighted normal from positions) is replaced by a harness-controlled one through a partial
// specialisation on the harness' mesh-data type: encoder and decoder see the same predicted vector, as they do in draco.
#include "verif.h"
#include "verif_vecmodel.h"
#include "draco/core/bit_utils.cc"
#include "draco/core/decoder_buffer.cc"
#include "draco/core/encoder_buffer.cc"
#include "draco/core/divide.cc"
#include "draco/compression/bit_coders/rans_bit_decoder.h"
#include "draco/compression/bit_coders/rans_bit_decoder.cc"
#include "draco/compression/bit_coders/rans_bit_encoder.h"
#include "draco/compression/bit_coders/rans_bit_encoder.cc"
#include "draco/attributes/geometry_indices.h"
#include "draco/compression/attributes/prediction_schemes/mesh_prediction_scheme_geometric_normal_predictor_area.h"
#include <vector>
using namespace draco;
struct LiteTable { int dummy; };
struct LiteMD {
  typedef LiteTable CornerTable;
  const LiteTable *t; const std::vector<int32_t> *v2d; const std::vector<CornerIndex> *d2c;
  const LiteTable *corner_table() const { return t; }
  const std::vector<int32_t> *vertex_to_data_map() const { return v2d; }
  const std::vector<CornerIndex> *data_to_corner_map() const { return d2c; }
  bool IsInitialized() const { return true; }
};
int32_t verif_pred[3];
namespace draco {
template <class TransformT>
class MeshPredictionSchemeGeometricNormalPredictorArea<int32_t, TransformT, LiteMD> {
 public:
  explicit MeshPredictionSchemeGeometricNormalPredictorArea(const LiteMD &) {}
  void SetPositionAttribute(const PointAttribute &) {}
  void SetEntryToPointIdMap(const PointIndex *) {}
  bool IsInitialized() const { return true; }
  bool SetNormalPredictionMode(NormalPredictionMode) { return true; }
  NormalPredictionMode GetNormalPredictionMode() const { return TRIANGLE_AREA; }
  void ComputePredictedValue(CornerIndex, int32_t *p) { p[0] = verif_pred[0]; p[1] = verif_pred[1]; p[2] = verif_pred[2]; }
};
}  // namespace draco
#include "draco/compression/attributes/prediction_schemes/mesh_prediction_scheme_geometric_normal_decoder.h"
#include "draco/compression/attributes/prediction_schemes/mesh_prediction_scheme_geometric_normal_encoder.h"
#include "draco/compression/attributes/prediction_schemes/prediction_scheme_normal_octahedron_canonicalized_decoding_transform.h"
#include "draco/compression/attributes/prediction_schemes/prediction_scheme_normal_octahedron_canonicalized_encoding_transform.h"
#ifndef QC
#define QC 5
#endif
#ifndef PREDMAX
#define PREDMAX 63
#endif
typedef PredictionSchemeNormalOctahedronCanonicalizedEncodingTransform<int32_t> TE;
typedef PredictionSchemeNormalOctahedronCanonicalizedDecodingTransform<int32_t> TD;
extern "C" void h_geom_normal_rt(void) {
  for (int i = 0; i < 3; ++i) { verif_pred[i] = nondet_i32(); verif_assume(verif_pred[i] >= -PREDMAX && verif_pred[i] <= PREDMAX); }
  LiteTable ct; std::vector<int32_t> v2d; CornerIndex d2c_s[1] = {CornerIndex(0)}; std::vector<CornerIndex> d2c;
  verif_adopt(d2c, d2c_s, 1, 1);
  LiteMD md{&ct, &v2d, &d2c};
  const int32_t mq = (1 << QC) - 1;
  OctahedronToolBox tb; tb.SetQuantizationBits(QC);
  int32_t orig[2] = {nondet_i32(), nondet_i32()};
  verif_assume(orig[0] >= 0 && orig[0] <= tb.max_value() && orig[1] >= 0 && orig[1] <= tb.max_value());
  int32_t cs, ctt; tb.CanonicalizeOctahedralCoords(orig[0], orig[1], &cs, &ctt);
  verif_assume(cs == orig[0] && ctt == orig[1]);          // what AttributeOctahedronTransform produces (C07.int2oct)
  TE te(mq);
  MeshPredictionSchemeGeometricNormalEncoder<int32_t, TE, LiteMD> enc(nullptr, te, md);
  int32_t corr[2] = {0, 0}, out[2] = {0, 0};
  verif_assert(enc.ComputeCorrectionValues(orig, corr, 2, 2, nullptr), "encoder succeeds");
  EncoderBuffer eb; eb.buffer()->reserve(24);
  verif_assert(enc.EncodePredictionData(&eb), "prediction data written");
  DecoderBuffer db; db.Init(eb.data(), eb.size(), DRACO_BITSTREAM_VERSION(2, 2));
  TD td;
  MeshPredictionSchemeGeometricNormalDecoder<int32_t, TD, LiteMD> dec(nullptr, td, md);
  verif_assert(dec.DecodePredictionData(&db), "prediction data accepted");
  verif_assert(db.remaining_size() == 0, "prediction data consumed exactly");
  verif_assert(dec.ComputeOriginalValues(corr, out, 2, 2, nullptr), "decoder succeeds");
  verif_assert(out[0] == orig[0] && out[1] == orig[1], "geometric normal scheme: decoded octahedral normal equals the encoded one");
  verif_release(d2c);
  verif_reach();
}
