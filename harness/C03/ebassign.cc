// C03.eb_assign: MeshEdgebreakerDecoderImpl::AssignPointsToCorners turns the decoded corner table + attribute seams
// into the faces and the point count of the output mesh.  From ANY corner table that satisfies the structural invariants
// of C13 (symmetric, edge-consistent opposite pairing; every vertex's corners form one fan starting at its representative
// corner), ANY attribute connectivity (corner -> attribute vertex, seam flags) and ANY boundary flags, a successful call
// yields faces whose point ids are < num_points, every point is used by some corner, and corners that share a point
// agree on the position vertex and on every attribute vertex (so "the value of attribute a at point p" is well defined).
#include "verif.h"
#include "verif_vecmodel_fill.h"
#include "verif_vecmodel_grow.h"
#include "draco/compression/mesh/mesh_edgebreaker_decoder.h"
#include "draco/compression/mesh/mesh_edgebreaker_decoder_impl.h"
using namespace draco;
#ifndef NF
#define NF 2
#endif
#ifndef NV
#define NV 4
#endif
#ifndef NA
#define NA 1
#endif
#ifndef PREFIX
#define PREFIX 0
#endif
#define NC (3 * NF)
typedef Mesh::Face MeshFace;
VERIF_VEC_FILL_MODEL(MeshFace)
VERIF_VEC_PREFIX_MODEL(int, NC)
#include "draco/compression/mesh/mesh_edgebreaker_decoder_impl.cc"
#include "draco/compression/mesh/mesh_edgebreaker_decoder.cc"
#include "draco/compression/mesh/mesh_decoder.cc"
#include "draco/compression/point_cloud/point_cloud_decoder.cc"
#include "draco/compression/bit_coders/rans_bit_decoder.cc"
#include "draco/mesh/corner_table.cc"
#include "draco/mesh/mesh_attribute_corner_table.cc"
#include "draco/core/decoder_buffer.cc"
#include "draco/core/bit_utils.cc"
#include "draco/mesh/mesh.cc"
#include "draco/point_cloud/point_cloud.cc"
#include "draco/attributes/point_attribute.cc"
#include "draco/attributes/geometry_attribute.cc"
#include "draco/core/data_buffer.cc"
#include "draco/core/draco_types.cc"
typedef MeshEdgebreakerDecoderImpl<MeshEdgebreakerTraversalDecoder> Impl;
static inline uint32_t nx(uint32_t c) { return c % 3 == 2 ? c - 2 : c + 1; }
static inline uint32_t pv(uint32_t c) { return c % 3 == 0 ? c + 2 : c - 1; }
static const uint32_t INV = 0xffffffffu;
static inline uint32_t swr(const uint32_t *opp, uint32_t c) { const uint32_t o = opp[pv(c)]; return o == INV ? INV : pv(o); }
static inline uint32_t swl(const uint32_t *opp, uint32_t c) { const uint32_t o = opp[nx(c)]; return o == INV ? INV : nx(o); }

extern "C" void h_eb_assign(void) {
  // ---- corner table: arbitrary state satisfying the C13 invariants ----
  VertexIndex c2v_s[NC]; CornerIndex opp_s[NC], vc_s[NV]; uint32_t c2v[NC], opp[NC], vc[NV];
  uint32_t nv = nondet_u32(); verif_assume(nv >= 1 && nv <= NV);
  for (int c = 0; c < NC; ++c) {
    c2v[c] = nondet_u32(); verif_assume(c2v[c] < nv); c2v_s[c] = VertexIndex(c2v[c]);
    opp[c] = nondet_u32(); verif_assume(opp[c] < NC || opp[c] == INV); opp_s[c] = CornerIndex(opp[c]);
  }
  for (uint32_t c = 0; c < NC; ++c) {
    const uint32_t o = opp[c];
    if (o != INV) verif_assume(opp[o] == c && o / 3 != c / 3 && c2v[nx(c)] == c2v[pv(o)] && c2v[pv(c)] == c2v[nx(o)]);
  }
  for (uint32_t v = 0; v < NV; ++v) {
    vc[v] = nondet_u32(); verif_assume(vc[v] < NC || vc[v] == INV); vc_s[v] = CornerIndex(vc[v]);
    if (v < nv && vc[v] != INV) {
      verif_assume(c2v[vc[v]] == v);
      const uint32_t l = swl(opp, vc[v]);                       // representative corner = left-most corner of an open fan
      verif_assume(l == INV || ({ uint32_t cur = vc[v]; int closed = 0; for (int k = 0; k < NF; ++k) { cur = swr(opp, cur); if (cur == INV) break; if (cur == vc[v]) { closed = 1; break; } } closed; }));
    }
  }
  for (uint32_t c = 0; c < NC; ++c) {                           // every corner lies on the fan of its vertex
    const uint32_t rep = vc[c2v[c]];
    verif_assume(rep != INV);
    uint32_t cur = rep; int found = 0;
    for (int k = 0; k < NF; ++k) { if (cur == c) found = 1; cur = swr(opp, cur); if (cur == INV || cur == rep) break; }
    verif_assume(found);
  }
  CornerTable ct;
  verif_adopt(ct.corner_to_vertex_map_.vector_, c2v_s, NC, NC);
  verif_adopt(ct.opposite_corners_.vector_, opp_s, NC, NC);
  verif_adopt(ct.vertex_corners_.vector_, vc_s, nv, NV);
  // ---- decoder objects ----
  Mesh mesh; MeshFace face_s[NF];
  verif_adopt(mesh.faces_.vector_, face_s, 0, NF);
  MeshEdgebreakerDecoder dec; dec.mesh_ = &mesh; dec.point_cloud_ = &mesh;
  Impl impl; impl.decoder_ = &dec;
  impl.corner_table_.reset(&ct);
  unsigned long hole_w[1] = {nondet_u64()};
  // assumed decoder invariant: a vertex that is NOT flagged as a hole is interior (its fan is closed).  The connectivity
  // decoder starts with every vertex flagged and clears the flag only when a TOPOLOGY_C symbol (or an interior initial
  // face) closes the fan.  Without it AssignPointsToCorners can leave corners unassigned (see DESIGN.md, C03).
  for (uint32_t v = 0; v < NV; ++v)
    if (v < nv && vc[v] != INV && !((hole_w[0] >> v) & 1)) verif_assume(swl(opp, vc[v]) != INV);
  verif_adopt_bits(impl.is_vert_hole_, hole_w, nv, 1);
  // ---- attribute connectivity: arbitrary ----
  Impl::AttributeData slots[NA > 0 ? NA : 1];
  VertexIndex a2v_s[NA > 0 ? NA : 1][NC]; uint32_t a2v[NA > 0 ? NA : 1][NC]; unsigned long seam_w[NA > 0 ? NA : 1][1];
  uint32_t na = nondet_u32(); verif_assume(na <= NA);
  for (int i = 0; i < NA; ++i) {
    for (int c = 0; c < NC; ++c) { a2v[i][c] = nondet_u32(); verif_assume(a2v[i][c] < NC); a2v_s[i][c] = VertexIndex(a2v[i][c]); }
    seam_w[i][0] = nondet_u64();
    verif_adopt(slots[i].connectivity_data.corner_to_vertex_map_, a2v_s[i], NC, NC);
    verif_adopt_bits(slots[i].connectivity_data.is_vertex_on_seam_, seam_w[i], nv, 1);
    slots[i].connectivity_data.corner_table_ = &ct;
  }
  verif_adopt(impl.attribute_data_, slots, na, NA > 0 ? NA : 1);
  // "any number of points were already created": the point list starts with a virtual prefix of K entries, so new
  // point ids start at K (the function only appends to the list and takes its size)
  #ifdef ANY_PREFIX
  const uint32_t K = nondet_u32(); verif_assume(K <= 0x7fffff00u);
#else
  const uint32_t K = PREFIX;      // quick tier: a fixed number of earlier points (0, or one below a bit-width boundary)
#endif
  verif_vec_prefix_int = K; verif_vec_prefix_armed_int = true;   // consumed by the first local std::vector<int>: point_to_corner_map
  const uint32_t ncv = nv;      // caller's contract: the connectivity vertex count covers every vertex id of the table
  const bool ok = impl.AssignPointsToCorners((int)ncv);
  verif_observe(ok);
  if (ok) {
    const uint32_t np = mesh.num_points();
    verif_observe(np);
    verif_assert(mesh.num_faces() == NF, "one output face per face of the corner table");
    uint32_t pt[NC];
    for (int c = 0; c < NC; ++c) { pt[c] = face_s[c / 3][c % 3].value(); verif_observe(pt[c]); }
    uint32_t c = nondet_u32(), d = nondet_u32(), p = nondet_u32(); verif_assume(c < NC && d < NC);
    verif_assert(pt[c] < np, "every face index of a successfully decoded mesh is < num_points");
    if (na > 0) {
      verif_assert(pt[c] >= K, "every corner of this table gets one of the points created for it");
      verif_assume(p >= K && p < np);
      int used = 0; for (int k = 0; k < NC; ++k) if (pt[k] == p) used = 1;
      verif_assert(used, "every point is used by some corner (no point without attribute values)");
    }
    if (na == 0) verif_assert(np == ncv, "position-only: one point per connectivity vertex");
    else verif_assert(!verif_vec_prefix_armed_int && np >= K, "the point list of the function under test took the prefix");
    if (pt[c] == pt[d]) {
      verif_assert(c2v[c] == c2v[d], "corners sharing a point share the position vertex");
      for (uint32_t i = 0; i < NA; ++i) if (i < na) verif_assert(a2v[i][c] == a2v[i][d], "corners sharing a point share the attribute vertex of every attribute");
    }
  }
  // hand the borrowed storage back before the destructors run
  impl.corner_table_.release();
  verif_release(impl.attribute_data_); verif_release_bits(impl.is_vert_hole_);
  for (int i = 0; i < NA; ++i) { verif_release(slots[i].connectivity_data.corner_to_vertex_map_); verif_release_bits(slots[i].connectivity_data.is_vertex_on_seam_); }
  verif_release(ct.corner_to_vertex_map_.vector_); verif_release(ct.opposite_corners_.vector_); verif_release(ct.vertex_corners_.vector_);
  verif_release(mesh.faces_.vector_);
  verif_reach();
}
