// C03.seq_conn: a sequential-mesh connectivity block that decodes successfully only stores face indices < num_points.
#include "verif.h"
#include "draco/compression/mesh/mesh_sequential_decoder.h"
#include "draco/compression/mesh/mesh_sequential_decoder.cc"
#include "draco/compression/mesh/mesh_decoder.cc"
#include "draco/compression/point_cloud/point_cloud_decoder.cc"
#include "draco/core/decoder_buffer.cc"
#include "draco/core/bit_utils.cc"
#include "draco/core/data_buffer.cc"
#include "draco/core/draco_types.cc"
#include "draco/mesh/mesh.cc"
#include "draco/point_cloud/point_cloud.cc"
#include "draco/attributes/point_attribute.cc"
#include "draco/attributes/geometry_attribute.cc"
using namespace draco;
#ifndef NB
#define NB 6
#endif
#ifndef MAXF
#define MAXF 1
#endif
extern "C" void h_seq_conn(void) {
  char buf[NB];
  verif_fill(buf, NB);
  uint32_t n = nondet_u32(); verif_assume(n <= NB);
  uint16_t ver = nondet_bool() ? DRACO_BITSTREAM_VERSION(2, 2) : DRACO_BITSTREAM_VERSION(2, 1);
  DecoderBuffer db; db.Init(buf, n, ver);
  Mesh mesh;
  MeshSequentialDecoder dec;
  dec.buffer_ = &db; dec.point_cloud_ = &mesh; dec.mesh_ = &mesh;
  dec.version_major_ = 2; dec.version_minor_ = (ver == DRACO_BITSTREAM_VERSION(2, 2)) ? 2 : 1;
  const bool ok = dec.MeshSequentialDecoder::DecodeConnectivity();
  if (ok) {
    verif_assert(mesh.num_faces() <= MAXF, "number of faces bounded by the input length / 3");
    for (uint32_t f = 0; f < MAXF; ++f)
      if (f < mesh.num_faces())
        for (int k = 0; k < 3; ++k)
          verif_assert(mesh.face(FaceIndex(f))[k].value() < mesh.num_points(), "every face index of a successfully decoded mesh is < num_points");
  }
  verif_assert(db.decoded_size() <= (int64_t)n, "never reads past the input");
  verif_reach();
}
