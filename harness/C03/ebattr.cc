// C03.eb_attr_claim: MeshEdgebreakerDecoderImpl::CreateAttributesDecoder parses an attributes-decoder header from
// untrusted bytes and binds the decoder to one slot of attribute connectivity data (or to the position data).  A slot
// that is already bound must never be re-bound (two decoders sharing one slot leave the second decoder's point -> value
// maps sized for the wrong connectivity), an out-of-range slot id must be rejected, and nothing is read past the input.
// The real MeshEdgebreakerDecoderImpl / MeshEdgebreakerDecoder / DecoderBuffer objects are used, state set directly.
#include "verif.h"
#include "draco/compression/mesh/mesh_edgebreaker_decoder.h"
#include "draco/compression/mesh/mesh_edgebreaker_decoder_impl.h"
#include "draco/compression/mesh/mesh_edgebreaker_decoder_impl.cc"
#include "draco/compression/mesh/mesh_edgebreaker_decoder.cc"
#include "draco/compression/mesh/mesh_decoder.cc"
#include "draco/compression/point_cloud/point_cloud_decoder.cc"
#include "draco/compression/bit_coders/rans_bit_decoder.cc"
#include "draco/mesh/corner_table.cc"
#include "draco/mesh/mesh_attribute_corner_table.cc"
#include "draco/core/decoder_buffer.cc"
#include "draco/core/bit_utils.cc"
using namespace draco;
#ifndef NB
#define NB 4
#endif
#ifndef NSLOT
#define NSLOT 2
#endif
typedef MeshEdgebreakerDecoderImpl<MeshEdgebreakerTraversalDecoder> Impl;
extern "C" void h_eb_attr_claim(void) {
  char buf[NB];
  verif_fill(buf, NB);
  uint32_t n = nondet_u32(); verif_assume(n <= NB);
  // every supported bitstream version with the traversal-method byte (>= 1.2)
  uint8_t maj = nondet_u8(), mnr = nondet_u8();
  verif_assume((maj == 1 && mnr >= 2 && mnr <= 5) || (maj == 2 && mnr <= 2));
  DecoderBuffer db; db.Init(buf, n, DRACO_BITSTREAM_VERSION(maj, mnr));
  // harness cut: only headers that do NOT go on to build a traversal sequencer (those paths construct the sequencer /
  // controller object graph, which is outside this obligation): per-corner decoder type with a traversal method that
  // is either invalid or not depth-first.  The binding step under test happens before that decision.
  verif_assume(n < 3 || ((uint8_t)buf[1] != MESH_VERTEX_ATTRIBUTE && (uint8_t)buf[2] != MESH_TRAVERSAL_DEPTH_FIRST));
  MeshEdgebreakerDecoder dec;
  dec.buffer_ = &db; dec.version_major_ = maj; dec.version_minor_ = mnr; dec.mesh_ = nullptr; dec.point_cloud_ = nullptr;
  Impl impl;
  impl.decoder_ = &dec;
  Impl::AttributeData slots[NSLOT];
  int pre[NSLOT];
  uint32_t nslot = nondet_u32(); verif_assume(nslot <= NSLOT);
  for (int i = 0; i < NSLOT; ++i) { pre[i] = nondet_i32(); verif_assume(pre[i] >= -1 && pre[i] < 8); slots[i].decoder_id = pre[i]; }
  verif_adopt(impl.attribute_data_, slots, nslot, NSLOT);
  const int pre_pos = nondet_i32(); verif_assume(pre_pos >= -1 && pre_pos < 8);
  impl.pos_data_decoder_id_ = pre_pos;
  const int32_t id = nondet_i32(); verif_assume(id >= 0 && id < 8);
  const bool ok = impl.CreateAttributesDecoder(id);
  verif_observe(ok);
  verif_assert(!ok, "harness cut: these headers are always rejected after the binding step");
  for (int i = 0; i < NSLOT; ++i) {
    verif_observe((uint32_t)slots[i].decoder_id);
    if (pre[i] >= 0) verif_assert(slots[i].decoder_id == pre[i], "attribute connectivity data already bound to a decoder is never re-bound");
    else verif_assert(slots[i].decoder_id == -1 || (slots[i].decoder_id == id && (uint32_t)i < nslot && n >= 1 && buf[0] == i), "only the slot named by the header is bound, to this decoder");
  }
  if (pre_pos >= 0) verif_assert(impl.pos_data_decoder_id_ == pre_pos, "position data already bound to a decoder is never re-bound");
  verif_assert(db.decoded_size() <= (int64_t)n, "never reads past the input");
  verif_release(impl.attribute_data_);
  verif_reach();
}
