// C03.attr_decl / C18.attr_count / C02: the attribute declarations of an attributes decoder, parsed from arbitrary bytes
// into a real PointCloud, are well formed; the attribute-count guard bounds the side tables.
#include "verif.h"
#include "draco/compression/attributes/attributes_decoder.h"
#include "draco/compression/attributes/attributes_decoder.cc"
#include "draco/compression/point_cloud/point_cloud_decoder.cc"
#include "draco/core/bit_utils.cc"
#include "draco/core/decoder_buffer.cc"
#include "draco/core/data_buffer.cc"
#include "draco/core/draco_types.cc"
#include "draco/point_cloud/point_cloud.cc"
#include "draco/attributes/point_attribute.cc"
#include "draco/attributes/geometry_attribute.cc"
using namespace draco;
#ifndef NB
#define NB 8
#endif
struct TestPointCloudDecoder : public PointCloudDecoder {
  bool CreateAttributesDecoder(int32_t) override { return false; }
};
struct TestAttributesDecoder : public AttributesDecoder {
  bool DecodePortableAttributes(DecoderBuffer *) override { return true; }
};
extern "C" void h_attr_decl(void) {
  char buf[NB]; verif_fill(buf, NB);
  uint64_t n = nondet_u64(); verif_assume(n <= NB);
  verif_input_len = n;
  DecoderBuffer db; db.Init(buf, n, DRACO_BITSTREAM_VERSION(2, 2));
  PointCloud pc;
  TestPointCloudDecoder pcd;
  pcd.version_major_ = 2; pcd.version_minor_ = nondet_bool() ? 2 : 0;     // both sides of the 2.0 / 1.3 gates are not reachable from 2.x
  TestAttributesDecoder dec;
  verif_assert(dec.Init(&pcd, &pc), "Init");
  const bool ok = dec.DecodeAttributesDecoderData(&db);
  if (ok) {
    const int na = pc.num_attributes();
    verif_assert(na >= 1 && na == dec.GetNumAttributes(), "at least one attribute was declared and every declared attribute exists");
    if (na >= 1) {
      const PointAttribute *a = pc.attribute(0);
      verif_assert(a->attribute_type() >= 0 && a->attribute_type() < GeometryAttribute::NAMED_ATTRIBUTES_COUNT, "attribute type is a known one");
      verif_assert(a->data_type() > DT_INVALID && a->data_type() < DT_TYPES_COUNT, "data type is valid");
      verif_assert(a->num_components() >= 1, "at least one component");
      verif_assert(a->byte_stride() == (int64_t)DataTypeLength(a->data_type()) * a->num_components(), "stride = type length x components");
      verif_assert(dec.GetAttributeId(0) == 0 && dec.GetLocalIdForPointAttribute(0) == 0, "id maps are consistent");
    }
  }
  verif_assert(db.decoded_size() <= (int64_t)n, "never reads past the input");
  verif_reach();
}
