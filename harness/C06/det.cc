// C06: encoded kernels are functions of their inputs only (self-composition), unaffected by trailing bytes,
// heap garbage and object history.
#include "verif.h"
#include "draco/core/bit_utils.cc"
#include "draco/core/decoder_buffer.cc"
#include "draco/core/encoder_buffer.cc"
#include "draco/core/varint_decoding.h"
#include "draco/compression/entropy/ans.h"
#include "draco/compression/entropy/rans_symbol_decoder.h"
#include "draco/compression/bit_coders/direct_bit_decoder.h"
#include "draco/compression/bit_coders/direct_bit_decoder.cc"
#include "draco/compression/bit_coders/direct_bit_encoder.h"
#include "draco/compression/bit_coders/direct_bit_encoder.cc"
#include "draco/compression/bit_coders/rans_bit_decoder.h"
#include "draco/compression/bit_coders/rans_bit_decoder.cc"
using namespace draco;
#ifndef NB
#define NB 8
#endif
#ifndef DW1
#define DW1 5
#endif
#ifndef DW2
#define DW2 12
#endif

// Two inputs: A of length na, and B which agrees with A on the prefix A's decode consumed and is arbitrary after it
// (also longer).  A successful decode of A must give the same result and the same consumption on B.
struct Pair {
  char a[NB], b[NB]; uint32_t na, nb; uint16_t ver;
  void init() { verif_fill(a, NB); verif_fill(b, NB); na = nondet_u32(); nb = nondet_u32(); verif_assume(na <= NB && nb <= NB);
                ver = nondet_u16(); }
  void same_prefix(int64_t consumed) {
    verif_assume((int64_t)nb >= consumed);
    for (int i = 0; i < NB; ++i) if (i < consumed) verif_assume(a[i] == b[i]);
  }
};

template <typename T>
static void trailing_varint() {
  Pair p; p.init();
  DecoderBuffer da; da.Init(p.a, p.na, p.ver);
  T va = 0; const bool oka = DecodeVarint(&va, &da);
  verif_assume(oka);
  p.same_prefix(da.decoded_size());
  DecoderBuffer db; db.Init(p.b, p.nb, p.ver);
  T vb = 0; const bool okb = DecodeVarint(&vb, &db);
  verif_assert(okb && vb == va && db.decoded_size() == da.decoded_size(), "varint decode is unaffected by the bytes that follow");
  verif_reach();
}
extern "C" void h_trailing_varint_u32(void) { trailing_varint<uint32_t>(); }
extern "C" void h_trailing_varint_u64(void) { trailing_varint<uint64_t>(); }

extern "C" void h_trailing_bits(void) {
  Pair p; p.init();
  const bool ds = nondet_bool(); const uint32_t w = nondet_u8() % 33;
  DecoderBuffer da; da.Init(p.a, p.na, p.ver);
  uint64_t sa = 0; uint32_t ra = 0;
  verif_assume(da.StartBitDecoding(ds, &sa));
  const int64_t start = da.decoded_size();
  verif_assume(start * 8 + w <= (int64_t)p.na * 8);   // the bits read lie inside stream A
  da.DecodeLeastSignificantBits32(w, &ra);
  da.EndBitDecoding();
  p.same_prefix(da.decoded_size());
  DecoderBuffer db; db.Init(p.b, p.nb, p.ver);
  uint64_t sb = 0; uint32_t rb = 0;
  const bool okb = db.StartBitDecoding(ds, &sb);
  db.DecodeLeastSignificantBits32(w, &rb);
  db.EndBitDecoding();
  verif_assert(okb && (!ds || sa == sb) && ra == rb && da.decoded_size() == db.decoded_size(), "bit region decode is unaffected by trailing bytes");
  verif_reach();
}

extern "C" void h_trailing_direct(void) {
  Pair p; p.init();
  DecoderBuffer da; da.Init(p.a, p.na, p.ver);
  DirectBitDecoder xa; verif_assume(xa.StartDecoding(&da));
  uint32_t ra = 0; const uint32_t w = 1 + (nondet_u8() & 31);
  const bool ga = xa.DecodeLeastSignificantBits32(w, &ra);
  p.same_prefix(da.decoded_size());
  DecoderBuffer db; db.Init(p.b, p.nb, p.ver);
  DirectBitDecoder xb; const bool okb = xb.StartDecoding(&db);
  uint32_t rb = 0; const bool gb = okb && xb.DecodeLeastSignificantBits32(w, &rb);
  verif_assert(okb && ga == gb && (!ga || ra == rb) && da.decoded_size() == db.decoded_size(), "direct bit decoder is unaffected by trailing bytes");
  verif_reach();
}

extern "C" void h_trailing_rans_bit(void) {
  Pair p; p.init();
  DecoderBuffer da; da.Init(p.a, p.na, p.ver);
  RAnsBitDecoder xa; verif_assume(xa.StartDecoding(&da));
  const bool b1 = xa.DecodeNextBit();
  p.same_prefix(da.decoded_size());
  DecoderBuffer db; db.Init(p.b, p.nb, p.ver);
  RAnsBitDecoder xb; const bool okb = xb.StartDecoding(&db);
  verif_assert(okb && da.decoded_size() == db.decoded_size(), "same consumption");
  if (okb) verif_assert(xb.DecodeNextBit() == b1, "rANS bit decoder is unaffected by trailing bytes");
  verif_reach();
}

#ifndef USB
#define USB 5
#endif
extern "C" void h_trailing_rans_tab(void) {
  Pair p; p.init();
  verif_assume(p.ver != 0);
  // context: every caller (DecodeSymbols) has consumed at least the scheme byte before the table, so >= 3 bytes of the
  // stream precede the rANS payload; RAnsDecoder::read_init relies on that (it reads buf[offset-4] for a 4-byte state tag)
  verif_assume(p.na >= 1 && p.nb >= 1);
  DecoderBuffer da; da.Init(p.a, p.na, p.ver); da.Advance(1);
  RAnsSymbolDecoder<USB> xa; verif_assume(xa.Create(&da));        // LUT build cut (returns true)
  verif_assume(xa.StartDecoding(&da));
  p.same_prefix(da.decoded_size());
  DecoderBuffer db; db.Init(p.b, p.nb, p.ver); db.Advance(1);
  RAnsSymbolDecoder<USB> xb; const bool okb = xb.Create(&db) && xb.StartDecoding(&db);
  verif_assert(okb && xa.num_symbols() == xb.num_symbols() && da.decoded_size() == db.decoded_size(), "table + frame parse unaffected by trailing bytes");
  if (okb) {
    for (uint32_t i = 0; i < 4; ++i) if (i < xa.num_symbols()) verif_assert(xa.probability_table_[i] == xb.probability_table_[i], "same table");
    verif_assert(xa.ans_.ans_.state == xb.ans_.ans_.state && xa.ans_.ans_.buf_offset == xb.ans_.ans_.buf_offset, "same initial rANS state");
  }
  verif_reach();
}

// ---- object reuse and heap garbage: a coder object that already encoded an arbitrary sequence produces, after
// StartEncoding, the same bytes as a fresh object (fresh heap chunks hold arbitrary garbage in the model)
#ifndef NF
#define NF 2
#endif
static void enc_seq(DirectBitEncoder *enc, const int *w, const uint32_t *v, EncoderBuffer *eb) {
  enc->StartEncoding();
  for (int i = 0; i < NF; ++i) enc->EncodeLeastSignificantBits32(w[i], v[i]);
  enc->EndEncoding(eb);
}
extern "C" void h_reuse_direct(void) {
  int w[NF]; uint32_t v[NF];
  for (int i = 0; i < NF; ++i) { w[i] = 1 + (nondet_u8() & 31); v[i] = nondet_u32(); if (w[i] < 32) v[i] &= (1u << w[i]) - 1; }
  DirectBitEncoder fresh, used;
  // history of the reused object: one arbitrary field, and (nondeterministically) abandoned without EndEncoding
  used.StartEncoding();
  used.EncodeLeastSignificantBits32(1 + (nondet_u8() & 31), nondet_u32());
  EncoderBuffer e0; e0.buffer()->reserve(16);
  if (nondet_bool()) used.EndEncoding(&e0);
  EncoderBuffer e1, e2; e1.buffer()->reserve(16); e2.buffer()->reserve(16);
  enc_seq(&fresh, w, v, &e1);
  enc_seq(&used, w, v, &e2);
  verif_assert(e1.size() == e2.size(), "same size from a fresh and a reused encoder");
  for (size_t i = 0; i < 16; ++i) if (i < e1.size()) verif_assert(e1.data()[i] == e2.data()[i], "byte-identical output from a fresh and a reused encoder");
  verif_reach();
}

extern "C" void h_bits_det(void) {
  // the same bit region written into two buffers whose fresh storage holds different garbage
  const uint32_t v1 = nondet_u32(), v2 = nondet_u32(); const bool ws = nondet_bool();
  const int w1 = DW1, w2 = DW2;
  EncoderBuffer a, b;
  a.StartBitEncoding(w1 + w2, ws); a.EncodeLeastSignificantBits32(w1, v1); a.EncodeLeastSignificantBits32(w2, v2); a.EndBitEncoding();
  b.Encode((uint8_t)nondet_u8()); b.Clear();            // b has a history
  b.StartBitEncoding(w1 + w2, ws); b.EncodeLeastSignificantBits32(w1, v1); b.EncodeLeastSignificantBits32(w2, v2); b.EndBitEncoding();
  verif_assert(a.size() == b.size(), "same size");
  for (size_t i = 0; i < 6; ++i) if (i < a.size()) verif_assert(a.data()[i] == b.data()[i], "bit region bytes (incl. padding bits of the last byte) are deterministic");
  verif_reach();
}
