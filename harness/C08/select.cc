// C08.select_safe: the scheme-selection front end of EncodeSymbols (bit lengths, entropy estimates, method choice) must
// either hand the symbols to one of the two coders or report failure -- for ANY uint32 symbols -- without undefined
// behaviour or abnormal termination.  The two coders themselves are cut (they are the subject of the other obligations).
#include "verif.h"
#include "verif_vecmodel.h"
#include "draco/core/bit_utils.cc"
#include "draco/core/encoder_buffer.cc"
#include "draco/core/options.cc"
#include "draco/compression/entropy/shannon_entropy.cc"
#include "draco/compression/entropy/symbol_encoding.cc"
using namespace draco;
#ifndef NSYM
#define NSYM 2
#endif
extern "C" void h_select(void) {
  uint32_t sym[NSYM];
  for (int i = 0; i < NSYM; ++i) sym[i] = nondet_u32();
  int n = nondet_i32(); verif_assume(n >= 1 && n <= NSYM);
  EncoderBuffer eb; eb.buffer()->reserve(8);
  const bool ok = EncodeSymbols(sym, n, 1, nullptr, &eb);
  verif_observe(ok);
  if (ok && n > 0) verif_assert(eb.size() >= 1 && ((uint8_t)eb.data()[0] == 0 || (uint8_t)eb.data()[0] == 1), "a scheme byte (tagged=0 / raw=1) is written");
  verif_reach();
}

// the raw-scheme estimate alone, exactly as EncodeSymbols calls it: max_value is the largest symbol
extern "C" void h_raw_estimate(void) {
  uint32_t sym[NSYM];
  uint32_t mx = 0;
  for (int i = 0; i < NSYM; ++i) { sym[i] = nondet_u32(); if (sym[i] > mx) mx = sym[i]; }
  // call context: EncodeSymbols rejects inputs whose maximum needs all 32 bits before any estimate is computed
  // (proved by C08.reject_32bit), so the uint32 -> int conversion of max_value inside ComputeShannonEntropy is exact
  verif_assume(mx < (1u << 31));
  int uniq = 0;
  const int64_t bits = ApproximateRawSchemeBits(sym, NSYM, mx, &uniq);
  verif_assert(uniq >= 1 && uniq <= NSYM, "number of unique symbols is between 1 and the number of symbols");
  verif_observe((uint64_t)bits);
  verif_reach();
}

// symbols that need all 32 bits are refused up front: no estimate, no table, no undefined behaviour
extern "C" void h_reject_32bit(void) {
  uint32_t sym[NSYM]; bool big = false;
  for (int i = 0; i < NSYM; ++i) { sym[i] = nondet_u32(); big = big || sym[i] >= (1u << 31); }
  verif_assume(big);
  EncoderBuffer eb; eb.buffer()->reserve(8);
  const bool ok = EncodeSymbols(sym, NSYM, 1, nullptr, &eb);
  verif_assert(!ok, "EncodeSymbols reports failure for values that need all 32 bits (not representable by either scheme)");
  verif_reach();
}
