// C08: rANS symbol coding kernels.
#include "verif.h"
#include "verif_vecmodel.h"
#include "draco/core/bit_utils.cc"
#include "draco/core/decoder_buffer.cc"
#include "draco/core/encoder_buffer.cc"
#include "draco/compression/entropy/ans.h"
#include "draco/compression/entropy/rans_symbol_decoder.h"
#include "draco/compression/entropy/rans_symbol_encoder.h"
using namespace draco;

#ifndef PB
#define PB 12
#endif

// ---- C08.ends: final-state serialisation write_end <-> read_init for every normalised state
extern "C" void h_ends(void) {
  constexpr uint32_t P = 1u << PB, L = 4 * P;
  uint8_t buf[8];
  verif_fill(buf, 8);
  const int off = nondet_u8() & 3;   // bytes already emitted before the final state
  RAnsEncoder<PB> enc;
  enc.ans_.buf = buf; enc.ans_.buf_offset = off;
  uint32_t x = nondet_u32();
  verif_assume(x >= L && x < L * 256u);
  enc.ans_.state = x;
  const int n = enc.write_end();
  verif_assert(n >= off + 1 && n <= off + 4, "write_end appends 1..4 bytes");
  RAnsDecoder<PB> dec;
  const int err = dec.read_init(buf, n);
  verif_assert(err == 0, "read_init accepts what write_end wrote");
  verif_assert(dec.ans_.state == x, "final encoder state is recovered exactly");
  verif_assert(dec.ans_.buf_offset == off, "remaining offset equals the bytes emitted before the final state");
  verif_observe(n);
  verif_reach();
}
// same for the bit coder's C functions (L = 4096 fixed)
extern "C" void h_ends_ans(void) {
  uint8_t buf[8];
  verif_fill(buf, 8);
  const int off = nondet_u8() & 3;
  AnsCoder c; c.buf = buf; c.buf_offset = off;
  uint32_t x = nondet_u32();
  verif_assume(x >= 4096u && x < 4096u * 256u);
  c.state = x;
  const int n = ans_write_end(&c);
  verif_assert(n >= off + 1 && n <= off + 3, "ans_write_end appends 1..3 bytes");
  AnsDecoder d;
  const int err = ans_read_init(&d, buf, n);
  verif_assert(err == 0 && d.state == x && d.buf_offset == off, "ans_read_init recovers state and offset");
  verif_reach();
}

// ---- C08.lut: the look-up table built from a probability array maps every slot to the symbol whose
// cumulative interval contains it (instantiated at a small precision: same template source)
#ifndef LUTP
#define LUTP 4
#endif
#ifndef LUTN
#define LUTN 4
#endif
extern "C" void h_lut(void) {
  constexpr uint32_t P = 1u << LUTP;
  uint32_t probs[LUTN];
  // precondition supplied by the only caller, RAnsSymbolDecoder::Create: a probability is 6 bits + at most three
  // extra bytes, i.e. < 2^30, so cum_prob (<= 2^20) + prob cannot wrap in 32 bits
  for (int i = 0; i < LUTN; ++i) { probs[i] = nondet_u32(); verif_assume(probs[i] < (1u << 30)); }
  uint32_t n = nondet_u32(); verif_assume(n <= LUTN);
  RAnsDecoder<LUTP> dec;
  const bool ok = dec.rans_build_look_up_table(probs, n);
  // reference: ok iff the probabilities sum to P without any partial sum exceeding it
  uint64_t sum = 0; bool over = false;
  for (uint32_t i = 0; i < n; ++i) { sum += probs[i]; if (sum > P) over = true; }
  verif_assert(ok == (!over && sum == P), "table accepted iff the probabilities sum to the precision");
  if (ok) {
    uint32_t r = nondet_u32(); verif_assume(r < P);
    verif_assert(dec.lut_table_.size() == P && dec.probability_table_.size() == n, "table sizes");
    verif_assert(sizeof(dec.lut_table_[0]) * 8 >= 18, "a look-up table entry can hold every symbol id of the raw scheme (up to 18 bits)");
    const uint32_t s = dec.lut_table_[r];
    verif_assert(s < n, "slot maps to an existing symbol");
    verif_assert(dec.probability_table_[s].prob == probs[s], "probability table equals the input");
    verif_assert(dec.probability_table_[s].cum_prob <= r && r < dec.probability_table_[s].cum_prob + dec.probability_table_[s].prob,
                 "slot r lies in the cumulative interval of the symbol it maps to");
  }
  verif_reach();
}

// ---- C08.table: EncodeTable -> Create (LUT build cut: proved separately by C08.lut)
#ifndef NSYM
#define NSYM 3
#endif
#ifndef USB
#define USB 5
#endif
extern "C" void h_table(void) {
  typedef RAnsSymbolEncoder<USB> Enc;
  typedef RAnsSymbolDecoder<USB> Dec;
  constexpr uint32_t P = 1u << ComputeRAnsPrecisionFromUniqueSymbolsBitLength(USB);
  Enc enc;
  uint32_t n = nondet_u32(); verif_assume(n >= 1 && n <= NSYM);
  enc.num_symbols_ = n;
  rans_sym enc_tab[NSYM];
  verif_adopt(enc.probability_table_, enc_tab, NSYM, NSYM);
  uint32_t probs[NSYM]; uint64_t sum = 0;
  for (uint32_t i = 0; i < NSYM; ++i) {
    probs[i] = nondet_u32();
    verif_assume(probs[i] <= P);
    if (i >= n) probs[i] = 0;
    enc.probability_table_[i].prob = probs[i];
    sum += probs[i];
  }
  // what RAnsSymbolEncoder::Create establishes before calling EncodeTable (C08.create_post): valid table
  verif_assume(sum == P && probs[n - 1] > 0);
  EncoderBuffer eb; eb.buffer()->reserve(16);
  const bool eok = enc.EncodeTable(&eb);
  verif_assert(eok, "EncodeTable succeeds on a valid table");
  const size_t len = eb.size();
  const uint8_t trailer = nondet_u8();
  eb.Encode(trailer);
  DecoderBuffer db; db.Init(eb.data(), eb.size(), DRACO_BITSTREAM_VERSION(2, 2));
  Dec dec;
  const bool dok = dec.Create(&db);   // rans_build_look_up_table is stubbed to return true
  verif_assert(dok, "decoder accepts the table the encoder wrote");
  verif_assert(dec.num_symbols() == n, "symbol count survives");
  for (uint32_t i = 0; i < NSYM; ++i)
    if (i < n) verif_assert(dec.probability_table_[i] == probs[i], "every probability survives (incl. zero runs)");
  verif_assert((size_t)db.decoded_size() == len, "decoder consumes exactly the table bytes");
  uint8_t t2 = 0;
  verif_assert(db.Decode(&t2) && t2 == trailer, "data following the table is found at the right position");
  verif_release(enc.probability_table_);
  verif_reach();
}

// ---- C08.e2e: k symbols through the real rans_write / write_end / read_init / rans_read incl. the real LUT,
// at a small precision so that the whole sequence is one query
#ifndef E2EP
#define E2EP 4
#endif
#ifndef K
#define K 3
#endif
extern "C" void h_e2e(void) {
  constexpr uint32_t P = 1u << E2EP;
  uint32_t probs[3];
  probs[0] = nondet_u32(); probs[1] = nondet_u32(); probs[2] = nondet_u32();
  verif_assume(probs[0] <= P && probs[1] <= P && probs[2] <= P && probs[0] + probs[1] + probs[2] == P);
  RAnsDecoder<E2EP> dec;
  verif_assume(dec.rans_build_look_up_table(probs, 3));
  rans_sym tab[3]; uint32_t cum = 0;
  for (int i = 0; i < 3; ++i) { tab[i].prob = probs[i]; tab[i].cum_prob = cum; cum += probs[i]; }
  uint8_t buf[4 * K + 8];
  RAnsEncoder<E2EP> enc; enc.write_init(buf);
  uint32_t syms[K];
  for (int i = 0; i < K; ++i) { syms[i] = nondet_u32(); verif_assume(syms[i] < 3 && probs[syms[i]] > 0); }
  for (int i = K - 1; i >= 0; --i) enc.rans_write(&tab[syms[i]]);   // rANS encodes in reverse order
  const int n = enc.write_end();
  verif_assert(n >= 1 && n <= 4 * K + 4, "encoded size bounded");
  verif_assert(dec.read_init(buf, n) == 0, "decoder accepts");
  for (int i = 0; i < K; ++i) {
    const uint32_t s = dec.rans_read();
    verif_assert(s == syms[i], "symbol sequence decodes exactly");
  }
  // after the last symbol the decoder is back at the initial state with nothing left
  verif_assert(dec.ans_.buf_offset == 0 || dec.ans_.state < 4 * P, "no unread bytes remain beyond renormalisation");
  verif_reach();
}
