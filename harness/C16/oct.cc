// C16.oct_*: octahedral prediction transforms (canonicalized and plain) are exactly invertible.
#include "verif.h"
#include "draco/compression/attributes/normal_compression_utils.h"
#include "draco/compression/attributes/prediction_schemes/prediction_scheme_normal_octahedron_canonicalized_decoding_transform.h"
#include "draco/compression/attributes/prediction_schemes/prediction_scheme_normal_octahedron_canonicalized_encoding_transform.h"
#include "draco/compression/attributes/prediction_schemes/prediction_scheme_normal_octahedron_decoding_transform.h"
#include "draco/compression/attributes/prediction_schemes/prediction_scheme_normal_octahedron_encoding_transform.h"
using namespace draco;
#ifndef QC
#define QC 8
#endif

template <class Enc, class Dec, bool kCanonPred>
static void oct_rt() {
  const int q = QC;
  const int32_t mq = (1 << q) - 1;
  Enc enc(mq);
  Dec dec;
  verif_assert(dec.set_max_quantized_value(mq), "decoder accepts max_quantized_value = 2^q-1");
  OctahedronToolBox tb; tb.SetQuantizationBits(q);
  const int32_t c2 = tb.max_value();
  int32_t orig[2] = {nondet_i32(), nondet_i32()}, pred[2] = {nondet_i32(), nondet_i32()};
  verif_assume(orig[0] >= 0 && orig[0] <= c2 && orig[1] >= 0 && orig[1] <= c2);
  verif_assume(pred[0] >= 0 && pred[0] <= c2 && pred[1] >= 0 && pred[1] <= c2);
  int32_t cs, ct;
  // the originals the encoder sees are canonical (fixed points of CanonicalizeOctahedralCoords): that is what
  // AttributeOctahedronTransform produces (C07.int2oct) and what the property states
  tb.CanonicalizeOctahedralCoords(orig[0], orig[1], &cs, &ct);
  verif_assume(cs == orig[0] && ct == orig[1]);
  if (kCanonPred) {
    tb.CanonicalizeOctahedralCoords(pred[0], pred[1], &cs, &ct);
    verif_assume(cs == pred[0] && ct == pred[1]);
  }
  int32_t corr[2], out[2];
  enc.ComputeCorrection(orig, pred, corr);
  verif_assert(corr[0] >= 0 && corr[0] <= mq - 1 && corr[1] >= 0 && corr[1] <= mq - 1, "correction lies in [0, 2^q-2]^2");
  verif_observe((uint32_t)corr[0]); verif_observe((uint32_t)corr[1]);
  dec.ComputeOriginalValue(pred, corr, out);
  verif_assert(out[0] == orig[0] && out[1] == orig[1], "octahedral transform: decode(encode(orig,pred),pred) == orig");
  verif_reach();
}
extern "C" void h_oct_canon(void) {
  oct_rt<PredictionSchemeNormalOctahedronCanonicalizedEncodingTransform<int32_t>,
         PredictionSchemeNormalOctahedronCanonicalizedDecodingTransform<int32_t>, true>();
}
extern "C" void h_oct_canon_anypred(void) {
  oct_rt<PredictionSchemeNormalOctahedronCanonicalizedEncodingTransform<int32_t>,
         PredictionSchemeNormalOctahedronCanonicalizedDecodingTransform<int32_t>, false>();
}
extern "C" void h_oct_plain(void) {
  oct_rt<PredictionSchemeNormalOctahedronEncodingTransform<int32_t>,
         PredictionSchemeNormalOctahedronDecodingTransform<int32_t>, false>();
}
