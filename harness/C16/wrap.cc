// C16.wrap: wrap transform  enc -> dec  is the identity for every (min,max,orig,pred).
#include "verif.h"
#include "draco/compression/attributes/prediction_schemes/prediction_scheme_wrap_decoding_transform.h"
#include "draco/compression/attributes/prediction_schemes/prediction_scheme_wrap_encoding_transform.h"
using namespace draco;

#ifndef NCOMP
#define NCOMP 1
#endif

extern "C" void h_wrap(void) {
  PredictionSchemeWrapEncodingTransform<int32_t> enc;
  PredictionSchemeWrapDecodingTransform<int32_t> dec;
  const int32_t mn = nondet_i32(), mx = nondet_i32();
  verif_assume(mn <= mx);
  verif_assume((int64_t)mx - (int64_t)mn < 0x7fffffffLL);  // the range the property states
  enc.PredictionSchemeWrapTransformBase<int32_t>::Init(NCOMP);
  dec.PredictionSchemeWrapTransformBase<int32_t>::Init(NCOMP);
  enc.set_min_value(mn); enc.set_max_value(mx);
  dec.set_min_value(mn); dec.set_max_value(mx);
  const bool ok1 = enc.InitCorrectionBounds();
  const bool ok2 = dec.InitCorrectionBounds();
  verif_assert(ok1 && ok2, "InitCorrectionBounds accepts every range with max-min < 2^31-1");
  int32_t orig[NCOMP], pred[NCOMP], corr[NCOMP], out[NCOMP];
  for (int i = 0; i < NCOMP; ++i) {
    orig[i] = nondet_i32(); pred[i] = nondet_i32();
    verif_assume(orig[i] >= mn && orig[i] <= mx);
#ifdef EXCLUDE_KNOWN_WRAP_OVERFLOW
    // input class of the known finding: clamp(pred)+corr leaves int32
    { int64_t cp = pred[i]; if (cp > mx) cp = mx; if (cp < mn) cp = mn;
      int64_t c = (int64_t)orig[i] - cp;  // pre-wrap correction
      (void)c; }
#endif
  }
  enc.ComputeCorrection(orig, pred, corr);
  for (int i = 0; i < NCOMP; ++i) {
    verif_assert(corr[i] >= enc.min_correction() && corr[i] <= enc.max_correction(),
                 "correction lies inside the announced [min_correction,max_correction]");
    verif_observe((uint32_t)corr[i]);
  }
  dec.ComputeOriginalValue(pred, corr, out);
  for (int i = 0; i < NCOMP; ++i) {
    verif_observe((uint32_t)out[i]);
    verif_assert(out[i] == orig[i], "wrap transform: decode(encode(orig,pred),pred) == orig");
  }
  verif_reach();
}
