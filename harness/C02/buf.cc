// C02.buf / C02.varint: DecoderBuffer primitives and DecodeVarint on arbitrary bytes, from an arbitrary
// buffer state satisfying the invariant 0 <= pos <= size (one inductive step; invariant re-asserted).
#include "verif.h"
#include "draco/core/bit_utils.h"
#include "draco/core/decoder_buffer.cc"
#include "draco/core/varint_decoding.h"
#include <string.h>
using namespace draco;
#ifndef NB
#define NB 8
#endif

struct Input {
  char buf[NB]; char copy[NB]; uint32_t n; DecoderBuffer db;
  void init() {
    verif_fill(buf, NB);
    for (int i = 0; i < NB; ++i) copy[i] = buf[i];
    n = nondet_u32(); verif_assume(n <= NB);
    uint16_t ver = nondet_u16();
    db.Init(buf, n, ver);
    int64_t pos = nondet_i64();
    verif_assume(pos >= 0 && pos <= (int64_t)n);
    db.pos_ = pos;      // arbitrary reachable state
  }
  void check() {
    verif_assert(db.decoded_size() >= 0 && db.decoded_size() <= (int64_t)n, "buffer invariant 0 <= pos <= size is preserved");
    bool same = true;
    for (int i = 0; i < NB; ++i) same = same && (copy[i] == buf[i]);
    verif_assert(same, "the caller's input bytes are not modified");
  }
};

template <typename T>
static void dec_scalar() {
  Input in; in.init();
  const int64_t before = in.db.decoded_size();
  T v; T p;
  bool okp = in.db.Peek(&p);
  verif_assert(in.db.decoded_size() == before, "Peek does not advance");
  bool ok = in.db.Decode(&v);
  verif_assert(ok == okp, "Peek and Decode agree on availability");
  verif_assert(ok == (before + (int64_t)sizeof(T) <= (int64_t)in.n), "Decode<T> succeeds iff sizeof(T) bytes remain");
  verif_assert(in.db.decoded_size() == before + (ok ? (int64_t)sizeof(T) : 0), "Decode<T> advances by sizeof(T) on success only");
  in.check();
  verif_reach();
}
extern "C" void h_dec_u8(void) { dec_scalar<uint8_t>(); }
extern "C" void h_dec_u16(void) { dec_scalar<uint16_t>(); }
extern "C" void h_dec_u32(void) { dec_scalar<uint32_t>(); }
extern "C" void h_dec_u64(void) { dec_scalar<uint64_t>(); }
extern "C" void h_dec_float(void) { dec_scalar<float>(); }

extern "C" void h_dec_block(void) {
  Input in; in.init();
  char out[NB];
  uint64_t sz = nondet_u64();
  // stated precondition: the requested size fits the destination and is < 2^62 (pos + size must not wrap)
  verif_assume(sz <= NB);
  const int64_t before = in.db.decoded_size();
  bool okp = in.db.Peek(out, sz);
  bool ok = in.db.Decode(out, sz);
  verif_assert(ok == okp && ok == (before + (int64_t)sz <= (int64_t)in.n), "Decode(void*,size) succeeds iff size bytes remain");
  verif_assert(in.db.decoded_size() == before + (ok ? (int64_t)sz : 0), "advances by size on success only");
  in.check();
  verif_reach();
}

template <typename T>
static void dec_varint() {
  Input in; in.init();
  const int64_t before = in.db.decoded_size();
  T v = 0;
  bool ok = DecodeVarint(&v, &in.db);
  verif_assert(in.db.decoded_size() >= before, "never moves backwards");
  verif_assert(!ok || in.db.decoded_size() > before, "a decoded varint consumed at least one byte");
  verif_assert(in.db.decoded_size() - before <= (int64_t)(sizeof(T) + 1 + (sizeof(T) >> 3)), "recursion depth bounded by the type");
  verif_observe((uint64_t)v * (ok ? 1 : 0));
  in.check();
  verif_reach();
}
extern "C" void h_varint_u8(void) { dec_varint<uint8_t>(); }
extern "C" void h_varint_u16(void) { dec_varint<uint16_t>(); }
extern "C" void h_varint_u32(void) { dec_varint<uint32_t>(); }
extern "C" void h_varint_u64(void) { dec_varint<uint64_t>(); }
extern "C" void h_varint_i32(void) { dec_varint<int32_t>(); }
extern "C" void h_varint_i64(void) { dec_varint<int64_t>(); }

#ifndef NFIELDS
#define NFIELDS 2
#endif
extern "C" void h_bits(void) {
  Input in; in.init();
  const int64_t before = in.db.decoded_size();
  uint64_t sz = 0;
  bool ds = nondet_bool();
  uint32_t dummy = 0;
  verif_assert(!in.db.DecodeLeastSignificantBits32(nondet_u32(), &dummy), "bit reads outside a bit region are refused");
  bool ok = in.db.StartBitDecoding(ds, &sz);
  if (ok) {
    verif_assert(in.db.bit_decoder_active(), "bit mode on");
    uint64_t total = 0;
    for (int f = 0; f < NFIELDS; ++f) {
      uint32_t nbits = nondet_u32();
      uint32_t val = 0xdeadbeef;
      bool g = in.db.DecodeLeastSignificantBits32(nbits, &val);
      verif_assert(g == (nbits <= 32), "GetBits accepts exactly widths 0..32");
      if (g) {
        verif_assert(nbits == 32 || (val >> (nbits & 31)) == 0, "no bits above the requested width");
        total += nbits;
      }
    }
    in.db.EndBitDecoding();
    verif_assert(!in.db.bit_decoder_active(), "bit mode off");
    verif_assert(in.db.decoded_size() <= before + 10 + (int64_t)((total + 7) / 8), "position advances by at most the size prefix plus ceil(bits/8)");
  } else {
    verif_assert(ds, "StartBitDecoding can only fail while reading the size prefix");
  }
  in.check();
  verif_reach();
}
