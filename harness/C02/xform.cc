// C02.xform_dec: prediction transforms on the decoder side: DecodeTransformData on arbitrary bytes, then
// ComputeOriginalValue for ANY 32-bit prediction / correction (what a hostile stream can make the predictors produce).
#include "verif.h"
#include "draco/core/bit_utils.cc"
#include "draco/core/decoder_buffer.cc"
#include "draco/compression/attributes/prediction_schemes/prediction_scheme_normal_octahedron_canonicalized_decoding_transform.h"
#include "draco/compression/attributes/prediction_schemes/prediction_scheme_normal_octahedron_decoding_transform.h"
#include "draco/compression/attributes/prediction_schemes/prediction_scheme_wrap_decoding_transform.h"
using namespace draco;
#define NB 8
template <class T, int NC>
static void xform() {
  char buf[NB]; verif_fill(buf, NB);
  uint32_t n = nondet_u32(); verif_assume(n <= NB);
  DecoderBuffer db; db.Init(buf, n, nondet_u16());
  T t;
  t.Init(NC);
  if (t.DecodeTransformData(&db)) {
    int32_t pred[NC], corr[NC], out[NC];
    for (int i = 0; i < NC; ++i) { pred[i] = nondet_i32(); corr[i] = nondet_i32(); out[i] = 0; }
    t.ComputeOriginalValue(pred, corr, out);
    verif_observe((uint32_t)out[0]);
  }
  verif_assert(db.decoded_size() <= (int64_t)n, "never reads past the input");
  verif_reach();
}
extern "C" void h_wrap(void) { xform<PredictionSchemeWrapDecodingTransform<int32_t>, 2>(); }
struct OctC : PredictionSchemeNormalOctahedronCanonicalizedDecodingTransform<int32_t> { void Init(int) {} };
struct OctP : PredictionSchemeNormalOctahedronDecodingTransform<int32_t> { void Init(int) {} };
extern "C" void h_oct_canon(void) { xform<OctC, 2>(); }
extern "C" void h_oct_plain(void) { xform<OctP, 2>(); }
