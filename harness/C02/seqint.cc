// C02.seq_int_values: SequentialIntegerAttributeDecoder::DecodeIntegerValues reads the (uncompressed) integer values of
// an attribute from untrusted bytes into the portable attribute it has just created: for ANY bytes, entry size field
// and component count there is no undefined behaviour and no access outside the portable attribute or the input;
// followed by StoreValues (the legacy post-processing step) into the final attribute of every integer type.
#include "verif.h"
#include "draco/compression/attributes/sequential_integer_attribute_decoder.cc"
#include "draco/compression/attributes/sequential_attribute_decoder.cc"
#include "draco/compression/point_cloud/point_cloud_decoder.cc"
#include "draco/core/bit_utils.cc"
#include "draco/core/decoder_buffer.cc"
#include "draco/core/data_buffer.cc"
#include "draco/core/draco_types.cc"
#include "draco/core/status.cc"
#include "draco/attributes/geometry_attribute.cc"
#include "draco/attributes/point_attribute.cc"
#include "draco/point_cloud/point_cloud.cc"
using namespace draco;
struct BareDecoder : public PointCloudDecoder { bool CreateAttributesDecoder(int32_t) override { return false; } };
#ifndef NB
#define NB 10
#endif
#ifndef NENT
#define NENT 2
#endif
extern "C" void h_seq_int_values(void) {
  char buf[NB]; verif_fill(buf, NB);
  uint32_t n = nondet_u32(); verif_assume(n <= NB);
  const uint8_t maj = 2, mnr = 2;      // DecodeIntegerValues does not look at the version
  DecoderBuffer db; db.Init(buf, n, DRACO_BITSTREAM_VERSION(maj, mnr));
  BareDecoder pcd; pcd.version_major_ = maj; pcd.version_minor_ = mnr; pcd.buffer_ = &db;
  // the final attribute: any integer type, 1..2 components, storage for exactly NENT values
#ifdef WITH_STORE
  const uint8_t w = nondet_u8(); verif_assume(w < 6);
#else
  const uint8_t w = 4;
#endif
  const DataType dt = w == 0 ? DT_INT8 : w == 1 ? DT_UINT8 : w == 2 ? DT_INT16 : w == 3 ? DT_UINT16 : w == 4 ? DT_INT32 : DT_UINT32;
  const uint8_t nc = nondet_u8(); verif_assume(nc >= 1 && nc <= 2);
  uint8_t store[NENT * 2 * 4]; PointAttribute att; DataBuffer adb;
  const int64_t esz = (int64_t)DataTypeLength(dt) * nc;
  verif_adopt(adb.data_, store, (size_t)(NENT * esz), sizeof(store));
  att.GeometryAttribute::Init(GeometryAttribute::GENERIC, &adb, nc, dt, false, esz, 0);
  att.attribute_buffer_.reset(&adb); att.identity_mapping_ = true; att.num_unique_entries_ = NENT; att.unique_id_ = 3;
  SequentialIntegerAttributeDecoder dec;
  dec.decoder_ = &pcd; dec.attribute_ = &att; dec.attribute_id_ = 0;
  PointIndex ids_s[NENT]; for (int i = 0; i < NENT; ++i) ids_s[i] = PointIndex(i); std::vector<PointIndex> ids; verif_adopt(ids, ids_s, NENT, NENT);
  const bool ok = dec.DecodeIntegerValues(ids, &db);
  verif_observe(ok);
  verif_assert(db.decoded_size() <= (int64_t)n, "never reads past the input");
  if (ok) {
    const PointAttribute *p = dec.portable_attribute_.get();
    verif_assert(p != nullptr && p->size() == NENT && p->num_components() == nc && p->data_type() == DT_INT32, "portable attribute: NENT int32 entries");
    if (p != nullptr) for (int i = 0; i < NENT * 2; ++i) if (i < NENT * nc) { int32_t v; memcpy(&v, p->buffer()->data() + 4 * i, 4); verif_observe((uint32_t)v); }
#ifdef WITH_STORE
    verif_observe(dec.StoreValues(NENT));
    for (int i = 0; i < (int)sizeof(store); ++i) if (i < NENT * esz) verif_observe(store[i]);
#endif
  }
  att.attribute_buffer_.release(); verif_release(adb.data_); verif_release(ids);
  verif_reach();
}
