// C02.texcoords_dec: the (portable) texture-coordinate predictor on the DECODER side works on values a hostile stream
// controls: the integer positions of the position attribute and the already decoded UV values.  For ANY int32 positions
// and UVs, any in-range corner table and data order, ComputePredictedValue<false> must not execute undefined behaviour
// (signed overflow, division by zero, out-of-range access).
#include "verif.h"
#include "draco/attributes/geometry_attribute.cc"
#include "draco/attributes/point_attribute.cc"
#include "draco/core/data_buffer.cc"
#include "draco/core/draco_types.cc"
#include "draco/attributes/geometry_indices.h"
#include "draco/compression/attributes/prediction_schemes/mesh_prediction_scheme_tex_coords_portable_predictor.h"
using namespace draco;
#define NC 3
#define NE 3
#ifdef SMALL_VALUES   // the input class for which the arithmetic is overflow-free (known finding F12 excluded)
#define POS_BITS 6
#define UV_BITS 6
#endif
#ifndef POS_BITS
#define POS_BITS 32
#endif
struct LiteTable {
  uint32_t c2v[NC];
  CornerIndex Next(CornerIndex c) const { return c == kInvalidCornerIndex ? c : ((c.value() % 3) == 2 ? c - 2 : c + 1); }
  CornerIndex Previous(CornerIndex c) const { return c == kInvalidCornerIndex ? c : ((c.value() % 3) == 0 ? c + 2 : c - 1); }
  VertexIndex Vertex(CornerIndex c) const { return c == kInvalidCornerIndex ? kInvalidVertexIndex : VertexIndex(c2v[c.value()]); }
};
struct LiteMD {
  typedef LiteTable CornerTable;
  const LiteTable *t; const std::vector<int32_t> *v2d;
  const LiteTable *corner_table() const { return t; }
  const std::vector<int32_t> *vertex_to_data_map() const { return v2d; }
};
extern "C" void h_texcoords_dec(void) {
  LiteTable ct; int32_t v2d_s[NE]; std::vector<int32_t> v2d;
  for (int c = 0; c < NC; ++c) { uint32_t v = nondet_u32(); verif_assume(v < NE); ct.c2v[c] = v; }
  for (int i = 0; i < NE; ++i) { int32_t d = nondet_i32(); verif_assume(d >= 0 && d < NE); v2d_s[i] = d; }
  verif_adopt(v2d, v2d_s, NE, NE);
  LiteMD md{&ct, &v2d};
  int32_t store[NE * 3];
  for (int i = 0; i < NE * 3; ++i) {
    store[i] = nondet_i32();
#if POS_BITS < 32
    verif_assume(store[i] >= -(1 << POS_BITS) && store[i] < (1 << POS_BITS));
#endif
  }
  DataBuffer buf; verif_adopt(buf.data_, (uint8_t *)store, sizeof(store), sizeof(store));
  GeometryAttribute ga; ga.Init(GeometryAttribute::POSITION, &buf, 3, DT_INT32, false, 12, 0);
  PointAttribute pos(ga); pos.SetIdentityMapping(); pos.num_unique_entries_ = NE;
  PointIndex ids[NE]; for (int i = 0; i < NE; ++i) ids[i] = PointIndex(i);
  MeshPredictionSchemeTexCoordsPortablePredictor<int32_t, LiteMD> pr(md);
  pr.SetPositionAttribute(pos); pr.SetEntryToPointIdMap(ids);
  pr.ResizeOrientations(1); pr.set_orientation(0, nondet_bool());
  int32_t data[NE * 2]; for (int i = 0; i < NE * 2; ++i) {
    data[i] = nondet_i32();
#ifdef UV_BITS
    verif_assume(data[i] >= -(1 << UV_BITS) && data[i] < (1 << UV_BITS));
#endif
  }
  int data_id = nondet_i32(); verif_assume(data_id >= 0 && data_id < NE);
  uint32_t ci = nondet_u32(); verif_assume(ci < NC);
  const bool ok = pr.ComputePredictedValue<false>(CornerIndex(ci), data, data_id);
  verif_observe(ok); if (ok) { verif_observe((uint32_t)pr.predicted_value()[0]); verif_observe((uint32_t)pr.predicted_value()[1]); }
  verif_release(v2d); verif_release(buf.data_); verif_reach();
}
