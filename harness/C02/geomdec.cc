// C02.geom_normal_pred: the area-weighted geometric normal predictor computes with the integer positions of the position
// attribute, which a hostile stream controls.  For ANY int32 positions of the triangle(s) around the corner it must not
// execute undefined behaviour.
#include "verif.h"
#include "draco/attributes/geometry_attribute.cc"
#include "draco/attributes/point_attribute.cc"
#include "draco/core/data_buffer.cc"
#include "draco/core/draco_types.cc"
#include "draco/attributes/geometry_indices.h"
#include "draco/mesh/corner_table_iterators.h"
#include "draco/compression/attributes/prediction_schemes/mesh_prediction_scheme_geometric_normal_predictor_area.h"
#include "draco/compression/attributes/prediction_schemes/prediction_scheme_normal_octahedron_canonicalized_decoding_transform.h"
using namespace draco;
#define NC 3
#define NE 3
#ifdef SMALL_POSITIONS   // known finding F13 excluded: positions of at most 8 bits cannot overflow the int64 products
#define POS_BITS 8
#endif
struct LiteTable {
  uint32_t c2v[NC];
  CornerIndex Opposite(CornerIndex) const { return kInvalidCornerIndex; }          // a single triangle: all edges open
  CornerIndex Next(CornerIndex c) const { return c == kInvalidCornerIndex ? c : ((c.value() % 3) == 2 ? c - 2 : c + 1); }
  CornerIndex Previous(CornerIndex c) const { return c == kInvalidCornerIndex ? c : ((c.value() % 3) == 0 ? c + 2 : c - 1); }
  VertexIndex Vertex(CornerIndex c) const { return c == kInvalidCornerIndex ? kInvalidVertexIndex : VertexIndex(c2v[c.value()]); }
  CornerIndex SwingRight(CornerIndex c) const { return Previous(Opposite(Previous(c))); }
  CornerIndex SwingLeft(CornerIndex c) const { return Next(Opposite(Next(c))); }
  CornerIndex LeftMostCorner(VertexIndex) const { return kInvalidCornerIndex; }
};
struct LiteMD {
  typedef LiteTable CornerTable;
  const LiteTable *t; const std::vector<int32_t> *v2d;
  const LiteTable *corner_table() const { return t; }
  const std::vector<int32_t> *vertex_to_data_map() const { return v2d; }
};
typedef PredictionSchemeNormalOctahedronCanonicalizedDecodingTransform<int32_t> TD;
extern "C" void h_geom_normal_pred(void) {
  LiteTable ct; int32_t v2d_s[NE]; std::vector<int32_t> v2d;
  for (int c = 0; c < NC; ++c) { uint32_t v = nondet_u32(); verif_assume(v < NE); ct.c2v[c] = v; }
  for (int i = 0; i < NE; ++i) { int32_t d = nondet_i32(); verif_assume(d >= 0 && d < NE); v2d_s[i] = d; }
  verif_adopt(v2d, v2d_s, NE, NE);
  LiteMD md{&ct, &v2d};
  int32_t store[NE * 3];
  for (int i = 0; i < NE * 3; ++i) {
    store[i] = nondet_i32();
#ifdef POS_BITS
    verif_assume(store[i] >= -(1 << POS_BITS) && store[i] < (1 << POS_BITS));
#endif
  }
  DataBuffer buf; verif_adopt(buf.data_, (uint8_t *)store, sizeof(store), sizeof(store));
  GeometryAttribute ga; ga.Init(GeometryAttribute::POSITION, &buf, 3, DT_INT32, false, 12, 0);
  PointAttribute pos(ga); pos.SetIdentityMapping(); pos.num_unique_entries_ = NE;
  PointIndex ids[NE]; for (int i = 0; i < NE; ++i) ids[i] = PointIndex(i);
  MeshPredictionSchemeGeometricNormalPredictorArea<int32_t, TD, LiteMD> pr(md);
  pr.SetPositionAttribute(pos); pr.SetEntryToPointIdMap(ids);
  verif_assert(pr.SetNormalPredictionMode(nondet_bool() ? ONE_TRIANGLE : TRIANGLE_AREA), "mode accepted");
  uint32_t ci = nondet_u32(); verif_assume(ci < NC);
  int32_t pred[3];
  pr.ComputePredictedValue(CornerIndex(ci), pred);
  for (int i = 0; i < 3; ++i) verif_observe((uint32_t)pred[i]);
  verif_release(v2d); verif_release(buf.data_); verif_reach();
}
