// kd-tree coding of SIGNED integer attributes: the encoder subtracts the per-component minimum, the kd-tree core codes
// unsigned integers, the decoder adds the minimum (read from the stream) back.
//  h_kd_signed_dec (C02): KdTreeAttributesDecoder::TransformAttributesToOriginalFormat on one signed attribute with ANY
//    decoded unsigned value and ANY minimum from the stream: no undefined behaviour, no access outside the attribute.
//  h_kd_signed_rt (C01): if the encoder's TransformAttributesToPortableFormat accepts an INT32 attribute, the decoder's
//    back-transformation of (value - minimum) succeeds and returns the value, for ANY two int32 values.
#include "verif.h"
#include "draco/attributes/geometry_attribute.h"
#include "draco/compression/config/draco_options.h"
namespace draco {   // the option store is not the subject: table-free models of the two lookups on the paths used here
template <> bool DracoOptions<GeometryAttribute::Type>::GetAttributeBool(const GeometryAttribute::Type &, const std::string &, bool d) const { return d; }
template <> int DracoOptions<int>::GetAttributeInt(const int &, const std::string &, int d) const { return d; }
}  // namespace draco
#include "draco/compression/attributes/kd_tree_attributes_decoder.cc"
#include "draco/compression/attributes/kd_tree_attributes_encoder.cc"
#include "draco/compression/attributes/attributes_decoder.cc"
#include "draco/compression/attributes/attributes_encoder.cc"
#include "draco/compression/point_cloud/point_cloud_decoder.cc"
#include "draco/compression/point_cloud/point_cloud_encoder.cc"
#include "draco/core/bit_utils.cc"
#include "draco/core/decoder_buffer.cc"
#include "draco/core/encoder_buffer.cc"
#include "draco/core/data_buffer.cc"
#include "draco/core/draco_types.cc"
#include "draco/core/quantization_utils.cc"
#include "draco/core/status.cc"
#include "draco/attributes/attribute_quantization_transform.cc"
#include "draco/attributes/attribute_transform.cc"
#include "draco/attributes/geometry_attribute.cc"
#include "draco/attributes/point_attribute.cc"
#include "draco/point_cloud/point_cloud.cc"
#include <string.h>
using namespace draco;
struct BareDecoder : public PointCloudDecoder { bool CreateAttributesDecoder(int32_t) override { return false; } };
struct BareEncoder : public PointCloudEncoder {
  uint8_t GetEncodingMethod() const override { return 1; }
  bool GenerateAttributesEncoder(int32_t) override { return false; }
  Status EncodeGeometryData() override { return OkStatus(); }
  void ComputeNumberOfEncodedPoints() override {}
};
#ifndef NVAL
#define NVAL 1
#endif
// one signed attribute (1 component, NVAL values) as a small separate stack object
// (the value bytes are a separate small object: accesses with a symbolic stride then range over 4*NVAL bytes only)
struct OneAtt {
  PointAttribute pa; DataBuffer db; uint8_t *bytes; std::unique_ptr<PointAttribute> slot; int32_t id;
  void init(DataType dt, uint8_t *storage) {
    bytes = storage;
    verif_adopt(db.data_, bytes, 4 * NVAL, 4 * NVAL);
    pa.GeometryAttribute::Init(GeometryAttribute::GENERIC, &db, 1, dt, false, DataTypeLength(dt), 0);
    pa.attribute_buffer_.reset(&db); pa.identity_mapping_ = true; pa.num_unique_entries_ = NVAL;
    slot.reset(&pa); id = 0;
  }
  void done() { slot.release(); pa.attribute_buffer_.release(); verif_release(db.data_); }
};
extern "C" void h_kd_signed_dec(void) {
  uint8_t store[4 * NVAL]; OneAtt a; const uint8_t w = nondet_u8(); verif_assume(w < 3);
  a.init(w == 0 ? DT_INT32 : (w == 1 ? DT_INT16 : DT_INT8), store);
  verif_fill(a.bytes, 4 * NVAL);                              // ANY decoded unsigned value
  PointCloud pc; pc.num_points_ = NVAL; verif_adopt(pc.attributes_, &a.slot, 1, 1);
  BareDecoder pcd; DecoderOptions opt; pcd.options_ = &opt; pcd.point_cloud_ = &pc;
  KdTreeAttributesDecoder dec; dec.point_cloud_decoder_ = &pcd; dec.point_cloud_ = &pc;
  verif_adopt(dec.point_attribute_ids_, &a.id, 1, 1);
  int32_t mins[1] = {nondet_i32()};                            // ANY minimum read from the stream
  verif_adopt(dec.min_signed_values_, mins, 1, 1);
  const bool ok = dec.TransformAttributesToOriginalFormat();
  verif_observe(ok);
  for (int i = 0; i < 4 * NVAL; ++i) verif_observe(a.bytes[i]);
  verif_release(pc.attributes_); verif_release(dec.point_attribute_ids_); verif_release(dec.min_signed_values_); a.done();
  verif_reach();
}
extern "C" void h_kd_signed_rt(void) {
  uint8_t store[4 * NVAL]; OneAtt a; a.init(DT_INT32, store);
  int32_t v[NVAL]; for (int i = 0; i < NVAL; ++i) { v[i] = nondet_i32(); memcpy(a.bytes + 4 * i, &v[i], 4); }
  PointCloud pc; pc.num_points_ = NVAL; verif_adopt(pc.attributes_, &a.slot, 1, 1);
  EncoderOptions eopt = EncoderOptions::CreateEmptyOptions();
  BareEncoder pce; pce.point_cloud_ = &pc; pce.options_ = &eopt;
  KdTreeAttributesEncoder enc; enc.point_cloud_encoder_ = &pce; enc.point_cloud_ = &pc;
  verif_adopt(enc.point_attribute_ids_, &a.id, 1, 1);
  int32_t emins[1]; verif_adopt(enc.min_signed_values_, emins, 0, 1);
  const bool eok = enc.TransformAttributesToPortableFormat();
  verif_observe(eok);
  if (eok) {
    verif_assert(enc.min_signed_values_.size() == 1, "one minimum per component");
    const int32_t mn = emins[0];
    for (int i = 0; i < NVAL; ++i) verif_assert(mn <= v[i], "the stored minimum is a lower bound");
    // what EncodePortableAttributes hands to the kd-tree core (value - minimum, as the 32-bit pattern the core codes
    // losslessly), placed where the decoder finds it: in the attribute itself
    for (int i = 0; i < NVAL; ++i) { const uint32_t u = (uint32_t)v[i] - (uint32_t)mn; memcpy(a.bytes + 4 * i, &u, 4); }
    BareDecoder pcd; DecoderOptions opt; pcd.options_ = &opt; pcd.point_cloud_ = &pc;
    KdTreeAttributesDecoder dec; dec.point_cloud_decoder_ = &pcd; dec.point_cloud_ = &pc;
    verif_adopt(dec.point_attribute_ids_, &a.id, 1, 1);
    int32_t dmins[1] = {mn};                                   // the minimum travels through the stream as a varint (C17)
    verif_adopt(dec.min_signed_values_, dmins, 1, 1);
    const bool dok = dec.TransformAttributesToOriginalFormat();
    verif_assert(dok, "what the encoder accepted, the decoder accepts");
    for (int i = 0; i < NVAL; ++i) { int32_t g; memcpy(&g, a.bytes + 4 * i, 4); verif_assert(g == v[i], "signed value survives the kd-tree signed <-> unsigned conversion"); }
    verif_release(dec.point_attribute_ids_); verif_release(dec.min_signed_values_);
  }
  verif_release(pc.attributes_); verif_release(enc.point_attribute_ids_); verif_release(enc.min_signed_values_); a.done();
  verif_reach();
}
