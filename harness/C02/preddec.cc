// C02.pred_dec: the mesh prediction-scheme decoders (parallelogram, multi-parallelogram, constrained multi-parallelogram)
// run on ARBITRARY corrections (a hostile stream controls every correction and every crease flag) over an arbitrary
// in-range corner table whose opposite relation is a symmetric pairing (what CornerTable guarantees, property C13):
// no undefined behaviour, no access outside the arrays, termination.
#include "verif.h"
#include "draco/core/bit_utils.cc"
#include "draco/core/decoder_buffer.cc"
#include "draco/compression/bit_coders/rans_bit_decoder.h"
#include "draco/compression/bit_coders/rans_bit_decoder.cc"
#include "draco/compression/attributes/prediction_schemes/mesh_prediction_scheme_constrained_multi_parallelogram_decoder.h"
#include "draco/compression/attributes/prediction_schemes/mesh_prediction_scheme_multi_parallelogram_decoder.h"
#include "draco/compression/attributes/prediction_schemes/mesh_prediction_scheme_parallelogram_decoder.h"
#include "draco/compression/attributes/prediction_schemes/prediction_scheme_wrap_decoding_transform.h"
using namespace draco;
#define NC 6
#ifndef NE
#define NE 3
#endif
#ifndef NCOMP
#define NCOMP 1
#endif
struct LiteTable {
  uint32_t c2v[NC]; uint32_t opp[NC];
  int num_corners() const { return NC; }
  CornerIndex Opposite(CornerIndex c) const { return c == kInvalidCornerIndex ? c : CornerIndex(opp[c.value()]); }
  CornerIndex Next(CornerIndex c) const { return c == kInvalidCornerIndex ? c : ((c.value() % 3) == 2 ? c - 2 : c + 1); }
  CornerIndex Previous(CornerIndex c) const { return c == kInvalidCornerIndex ? c : ((c.value() % 3) == 0 ? c + 2 : c - 1); }
  VertexIndex Vertex(CornerIndex c) const { return c == kInvalidCornerIndex ? kInvalidVertexIndex : VertexIndex(c2v[c.value()]); }
  CornerIndex SwingRight(CornerIndex c) const { return Previous(Opposite(Previous(c))); }
  CornerIndex SwingLeft(CornerIndex c) const { return Next(Opposite(Next(c))); }
};
struct LiteMD {
  typedef LiteTable CornerTable;
  const LiteTable *t; const std::vector<int32_t> *v2d; const std::vector<CornerIndex> *d2c;
  const LiteTable *corner_table() const { return t; }
  const std::vector<int32_t> *vertex_to_data_map() const { return v2d; }
  const std::vector<CornerIndex> *data_to_corner_map() const { return d2c; }
  bool IsInitialized() const { return true; }
};
struct World {
  LiteTable ct; int32_t v2d_s[NE]; std::vector<int32_t> v2d; CornerIndex d2c_s[NE]; std::vector<CornerIndex> d2c; LiteMD md;
  int32_t corr[NE * NCOMP], out[NE * NCOMP];
  PredictionSchemeWrapDecodingTransform<int32_t> tr;
  void init() {
    for (int c = 0; c < NC; ++c) {
      uint32_t v = nondet_u32(); verif_assume(v < NE); ct.c2v[c] = v;
      uint32_t o = nondet_u32(); verif_assume(o < NC || o == kInvalidCornerIndex.value()); ct.opp[c] = o;
    }
    for (int c = 0; c < NC; ++c)    // opposite is a symmetric pairing of corners of different faces (C13)
      if (ct.opp[c] != kInvalidCornerIndex.value()) verif_assume(ct.opp[ct.opp[c]] == (uint32_t)c && ct.opp[c] / 3 != (uint32_t)c / 3);
    for (int i = 0; i < NE; ++i) {
      int32_t d = nondet_i32(); verif_assume(d >= 0 && d < NE); v2d_s[i] = d;
      uint32_t c = nondet_u32(); verif_assume(c < NC); d2c_s[i] = CornerIndex(c);
      for (int k = 0; k < NCOMP; ++k) { corr[i * NCOMP + k] = nondet_i32(); out[i * NCOMP + k] = 0; }
    }
    verif_adopt(v2d, v2d_s, NE, NE); verif_adopt(d2c, d2c_s, NE, NE);
    md.t = &ct; md.v2d = &v2d; md.d2c = &d2c;
    const int32_t mn = nondet_i32(), mx = nondet_i32();
    tr.set_min_value(mn); tr.set_max_value(mx);
    verif_assume(mn <= mx && tr.InitCorrectionBounds());      // what a successful DecodeTransformData leaves behind
  }
  void done() { verif_release(v2d); verif_release(d2c); }
};
extern "C" void h_pgram_dec(void) {
  World w; w.init();
  MeshPredictionSchemeParallelogramDecoder<int32_t, PredictionSchemeWrapDecodingTransform<int32_t>, LiteMD> dec(nullptr, w.tr, w.md);
  (void)dec.MeshPredictionSchemeParallelogramDecoder::ComputeOriginalValues(w.corr, w.out, NE * NCOMP, NCOMP, nullptr);
  verif_observe((uint32_t)w.out[NE * NCOMP - 1]);
  w.done(); verif_reach();
}
extern "C" void h_multi_dec(void) {
  World w; w.init();
  MeshPredictionSchemeMultiParallelogramDecoder<int32_t, PredictionSchemeWrapDecodingTransform<int32_t>, LiteMD> dec(nullptr, w.tr, w.md);
  (void)dec.MeshPredictionSchemeMultiParallelogramDecoder::ComputeOriginalValues(w.corr, w.out, NE * NCOMP, NCOMP, nullptr);
  verif_observe((uint32_t)w.out[NE * NCOMP - 1]);
  w.done(); verif_reach();
}
extern "C" void h_cmulti_dec(void) {
  World w; w.init();
  MeshPredictionSchemeConstrainedMultiParallelogramDecoder<int32_t, PredictionSchemeWrapDecodingTransform<int32_t>, LiteMD> dec(nullptr, w.tr, w.md);
  for (int i = 0; i < 4; ++i) {           // crease flags as decoded from the stream: any length 0..3, any contents
    const uint32_t n = nondet_u8() & 3;
    dec.is_crease_edge_[i].resize(n);
    for (uint32_t j = 0; j < 3; ++j) if (j < n) dec.is_crease_edge_[i][j] = nondet_bool();
  }
  (void)dec.MeshPredictionSchemeConstrainedMultiParallelogramDecoder::ComputeOriginalValues(w.corr, w.out, NE * NCOMP, NCOMP, nullptr);
  verif_observe((uint32_t)w.out[NE * NCOMP - 1]);
  w.done(); verif_reach();
}

// C06: the prediction decoders are functions of (table, corrections, transform bounds) only: two runs on the same inputs
// give the same values although every fresh heap block holds different (arbitrary) bytes in the two runs
template <class Dec>
static void det() {
  World w; w.init();
  int32_t out2[NE * NCOMP];
  for (int i = 0; i < NE * NCOMP; ++i) out2[i] = 0;
  { Dec d(nullptr, w.tr, w.md); (void)d.Dec::ComputeOriginalValues(w.corr, w.out, NE * NCOMP, NCOMP, nullptr); }
  { Dec d(nullptr, w.tr, w.md); (void)d.Dec::ComputeOriginalValues(w.corr, out2, NE * NCOMP, NCOMP, nullptr); }
  for (int i = 0; i < NE * NCOMP; ++i) verif_assert(w.out[i] == out2[i], "decoding the same corrections twice gives the same values (no dependence on heap contents)");
  w.done(); verif_reach();
}
extern "C" void h_multi_det(void) { det<MeshPredictionSchemeMultiParallelogramDecoder<int32_t, PredictionSchemeWrapDecodingTransform<int32_t>, LiteMD>>(); }
extern "C" void h_pgram_det(void) { det<MeshPredictionSchemeParallelogramDecoder<int32_t, PredictionSchemeWrapDecodingTransform<int32_t>, LiteMD>>(); }
