// C02.kd_out_iter: the output iterator through which the kd-tree attribute decoder stores decoded points must never write
// outside the attribute's storage, whatever point index it has reached (one step from an arbitrary iterator state).
#include "verif.h"
#include "draco/compression/attributes/kd_tree_attributes_decoder.cc"
#include "draco/attributes/geometry_attribute.cc"
#include "draco/attributes/point_attribute.cc"
#include "draco/core/data_buffer.cc"
#include "draco/core/draco_types.cc"
using namespace draco;
#ifndef NPTS
#define NPTS 2
#endif
#ifndef NCOMP
#define NCOMP 2
#endif
extern "C" void h_kd_out_iter(void) {
  GeometryAttribute ga; ga.Init(GeometryAttribute::GENERIC, nullptr, NCOMP, DT_UINT32, false, 4 * NCOMP, 0);
  PointAttribute att(ga); att.SetIdentityMapping(); att.Reset(NPTS);
  AttributeTuple tup[1] = {AttributeTuple(&att, 0, DT_UINT32, 4, NCOMP)};
  std::vector<AttributeTuple> atts; verif_adopt(atts, tup, 1, 1);
  {
    PointAttributeVectorOutputIterator<uint32_t> it(atts);
    it.point_id_ = PointIndex(nondet_u32());          // any number of points may already have been emitted
    uint32_t vals[3] = {nondet_u32(), nondet_u32(), nondet_u32()};
    std::vector<uint32_t> v; verif_adopt(v, vals, NCOMP, 3);
    if (nondet_bool()) {
      *it = v;                                         // integer path
    } else {
      VectorD<uint32_t, 3> p(vals[0], vals[1], vals[2]);
      (void)p;
    }
    ++it;
    verif_release(v);
  }
  verif_release(atts);
  verif_reach();
}
