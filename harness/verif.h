// Harness API shared by every obligation (DESIGN.md 2.1).  The same harness source is
//  (a) lowered by clang++-14 to LLVM IR and translated by tools/ir2c.py for CBMC, and
//  (b) compiled natively with g++ against tools/verif_rt.cc for the translation differential and for replay.
#ifndef VERIF_H_
#define VERIF_H_
#include <stdint.h>
#include <stddef.h>
extern "C" {
uint8_t nondet_u8(void);
uint16_t nondet_u16(void);
uint32_t nondet_u32(void);
uint64_t nondet_u64(void);
int8_t nondet_i8(void);
int16_t nondet_i16(void);
int32_t nondet_i32(void);
int64_t nondet_i64(void);
uint8_t nondet_bool(void);
float nondet_float(void);
double nondet_double(void);
void verif_assume(int c);
void verif_assert(int c, const char *msg);
void verif_reach(void);            // vacuity witness: must be reachable
void verif_observe(uint64_t v);    // value compared by the translation differential
extern uint64_t verif_input_len;   // C18: length of the symbolic input, read by the allocation bound
extern uint64_t verif_alloc_total; // sum of sizes requested from operator new so far
extern uint64_t verif_alloc_count;
}
#define VERIF_STR2(x) #x
#define VERIF_STR(x) VERIF_STR2(x)
#ifdef __cplusplus
#include <vector>
// Point a std::vector at harness-owned storage of exactly the size the harness needs (libstdc++ layout).
// Keeps small objects small for the solver; verif_release() must be called before the vector is destroyed.
template <class T>
static inline void verif_adopt(std::vector<T> &v, T *storage, size_t size, size_t cap) {
  v._M_impl._M_start = storage; v._M_impl._M_finish = storage + size; v._M_impl._M_end_of_storage = storage + cap;
}
template <class T>
static inline void verif_release(std::vector<T> &v) {
  v._M_impl._M_start = nullptr; v._M_impl._M_finish = nullptr; v._M_impl._M_end_of_storage = nullptr;
}
// std::vector<bool> (libstdc++ layout: start/finish are {word pointer, bit offset}) over harness-owned words, nbits <= 64*nwords
static inline void verif_adopt_bits(std::vector<bool> &v, unsigned long *words, size_t nbits, size_t nwords) {
  v._M_impl._M_start._M_p = words; v._M_impl._M_start._M_offset = 0;
  v._M_impl._M_finish._M_p = words + nbits / 64; v._M_impl._M_finish._M_offset = (unsigned)(nbits % 64);
  v._M_impl._M_end_of_storage = words + nwords;
}
static inline void verif_release_bits(std::vector<bool> &v) {
  v._M_impl._M_start._M_p = nullptr; v._M_impl._M_start._M_offset = 0;
  v._M_impl._M_finish._M_p = nullptr; v._M_impl._M_finish._M_offset = 0; v._M_impl._M_end_of_storage = nullptr;
}
#endif
// fill a buffer with symbolic bytes (kept out of line so that its loop has a stable name for --unwindset)
extern "C" __attribute__((noinline)) inline void verif_fill(void *p, size_t n) {
  uint8_t *b = (uint8_t *)p;
  for (size_t i = 0; i < n; ++i) b[i] = nondet_u8();
}
#endif
