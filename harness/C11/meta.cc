// C11: metadata string / entry framing.
#include "verif.h"
#include "verif_vecmodel.h"
#include "verif_rbtree_model.h"
#include "draco/core/bit_utils.cc"
#include "draco/core/decoder_buffer.cc"
#include "draco/core/encoder_buffer.cc"
#include "draco/metadata/metadata.h"
#include "draco/metadata/metadata.cc"
#include "draco/metadata/metadata_decoder.h"
#include "draco/metadata/metadata_decoder.cc"
#include "draco/metadata/metadata_encoder.h"
#include "draco/metadata/metadata_encoder.cc"
using namespace draco;
#ifndef MAXLEN
#define MAXLEN 6
#endif

// name of symbolic length 0..MAXLEN (<= 15: stays in the small-string buffer) with arbitrary bytes
static void any_name(std::string *s) {
  uint32_t len = nondet_u32(); verif_assume(len <= MAXLEN);
  s->clear();
  for (uint32_t i = 0; i < MAXLEN; ++i) if (i < len) s->push_back((char)nondet_u8());
}

extern "C" void h_name_rt(void) {
  std::string name; any_name(&name);
  EncoderBuffer eb; eb.buffer()->reserve(MAXLEN + 2);
  MetadataEncoder enc;
  verif_assert(enc.EncodeString(&eb, name), "EncodeString accepts names up to 255 bytes");
  verif_assert(eb.size() == name.size() + 1, "one length byte + the bytes");
  const uint8_t tail = nondet_u8(); eb.Encode(tail);
  DecoderBuffer db; db.Init(eb.data(), eb.size());
  MetadataDecoder dec; dec.buffer_ = &db;
  std::string out;
  verif_assert(dec.DecodeName(&out), "DecodeName accepts");
  verif_assert(out.size() == name.size(), "same length");
  for (uint32_t i = 0; i < MAXLEN; ++i) if (i < name.size()) verif_assert(out[i] == name[i], "name bytes survive (incl. NUL and non-ASCII)");
  uint8_t t2 = 0;
  verif_assert(db.Decode(&t2) && t2 == tail, "exact consumption");
  verif_reach();
}

// one entry with a short name and a binary value of symbolic length 0..MAXVAL through the real Metadata object
#ifndef MAXVAL
#define MAXVAL 2
#endif
extern "C" void h_entry_rt(void) {
  Metadata m;
  std::string name; any_name(&name);
  std::vector<uint8_t> val;
  uint32_t vl = nondet_u32(); verif_assume(vl <= MAXVAL);
  for (uint32_t i = 0; i < MAXVAL; ++i) if (i < vl) val.push_back(nondet_u8());
  m.AddEntryBinary(name, val);
  EncoderBuffer eb; eb.buffer()->reserve(16);
  MetadataEncoder enc;
  const bool eok = enc.EncodeMetadata(&eb, &m);
  if (eok) {
    DecoderBuffer db; db.Init(eb.data(), eb.size());
    MetadataDecoder dec;
    Metadata out;
    const bool dok = dec.DecodeMetadata(&db, &out);
    verif_assert(dok, "encoder reported success => the metadata block decodes");
    if (dok) {
      std::vector<uint8_t> got;
      verif_assert(out.num_entries() == 1 && out.GetEntryBinary(name, &got), "the entry is found under its name");
      verif_assert(got.size() == vl, "value length survives");
      for (uint32_t i = 0; i < MAXVAL; ++i) if (i < vl && i < got.size()) verif_assert(got[i] == val[i], "value bytes survive");
      verif_assert(db.remaining_size() == 0, "exact consumption");
    }
  }
  verif_reach();
}
