// C11: metadata string / entry framing.
#include "verif.h"
#include "verif_vecmodel.h"
#include "verif_rbtree_model.h"
#include "draco/core/bit_utils.cc"
#include "draco/core/decoder_buffer.cc"
#include "draco/core/encoder_buffer.cc"
#include "draco/metadata/metadata.h"
#include "draco/metadata/metadata.cc"
#include "draco/metadata/metadata_decoder.h"
#include "draco/metadata/metadata_decoder.cc"
#include "draco/metadata/metadata_encoder.h"
#include "draco/metadata/metadata_encoder.cc"
using namespace draco;
#ifndef MAXLEN
#define MAXLEN 6
#endif

// name of symbolic length 0..MAXLEN (<= 15: stays in the small-string buffer) with arbitrary bytes
static void any_name(std::string *s) {
  uint32_t len = nondet_u32(); verif_assume(len <= MAXLEN);
  s->clear();
  for (uint32_t i = 0; i < MAXLEN; ++i) if (i < len) s->push_back((char)nondet_u8());
}

extern "C" void h_name_rt(void) {
  std::string name; any_name(&name);
  EncoderBuffer eb; eb.buffer()->reserve(MAXLEN + 2);
  MetadataEncoder enc;
  verif_assert(enc.EncodeString(&eb, name), "EncodeString accepts names up to 255 bytes");
  verif_assert(eb.size() == name.size() + 1, "one length byte + the bytes");
  const uint8_t tail = nondet_u8(); eb.Encode(tail);
  DecoderBuffer db; db.Init(eb.data(), eb.size());
  MetadataDecoder dec; dec.buffer_ = &db;
  std::string out; any_name(&out);      // the output string may hold anything (e.g. the previously decoded name)
  verif_assert(dec.DecodeName(&out), "DecodeName accepts");
  verif_assert(out.size() == name.size(), "same length");
  for (uint32_t i = 0; i < MAXLEN; ++i) if (i < name.size()) verif_assert(out[i] == name[i], "name bytes survive (incl. NUL and non-ASCII)");
  uint8_t t2 = 0;
  verif_assert(db.Decode(&t2) && t2 == tail, "exact consumption");
  verif_reach();
}

// one entry with a short name and a binary value of symbolic length 0..MAXVAL through the real Metadata object
#ifndef MAXVAL
#define MAXVAL 2
#endif
extern "C" void h_entry_rt(void) {
  Metadata m;
  std::string name; any_name(&name);
  std::vector<uint8_t> val;
  uint32_t vl = nondet_u32(); verif_assume(vl <= MAXVAL);
  for (uint32_t i = 0; i < MAXVAL; ++i) if (i < vl) val.push_back(nondet_u8());
  {  // the entry is put into the map directly: Metadata::AddEntryBinary -> EntryValue(const std::vector&) evaluates &data[0],
     // which trips a libstdc++ assertion for an EMPTY value (harmless in release builds) and would hide exactly that case
    std::vector<uint8_t> one(1, 0);
    EntryValue ev(vl ? val : one);
    if (!vl) ev.data_.clear();
    m.entries_.insert(std::make_pair(name, ev));
  }
  EncoderBuffer eb; eb.buffer()->reserve(16);
  MetadataEncoder enc;
  const bool eok = enc.EncodeMetadata(&eb, &m);
  if (eok) {
    DecoderBuffer db; db.Init(eb.data(), eb.size());
    MetadataDecoder dec;
    Metadata out;
    const bool dok = dec.DecodeMetadata(&db, &out);
    verif_assert(dok, "encoder reported success => the metadata block decodes");
    if (dok) {
      std::vector<uint8_t> got;
      verif_assert(out.num_entries() == 1 && out.GetEntryBinary(name, &got), "the entry is found under its name");
      verif_assert(got.size() == vl, "value length survives");
      for (uint32_t i = 0; i < MAXVAL; ++i) if (i < vl && i < got.size()) verif_assert(got[i] == val[i], "value bytes survive");
      verif_assert(db.remaining_size() == 0, "exact consumption");
    }
  }
  verif_reach();
}

// error propagation: a sub-metadata two levels down whose name is too long (256 bytes) cannot be encoded; the top-level
// call must report failure (or produce something decodable)
extern "C" void h_err_prop(void) {
  Metadata root;
  std::unique_ptr<Metadata> lvl1(new Metadata());
  std::unique_ptr<Metadata> lvl2(new Metadata());
  std::string longname(256, 'x');
  lvl1->AddSubMetadata(longname, std::move(lvl2));
  root.AddSubMetadata("a", std::move(lvl1));
  EncoderBuffer eb; eb.buffer()->reserve(16);
  MetadataEncoder enc;
  const bool eok = enc.EncodeMetadata(&eb, &root);
  if (eok) {
    DecoderBuffer db; db.Init(eb.data(), eb.size());
    MetadataDecoder dec; Metadata out;
    verif_assert(dec.DecodeMetadata(&db, &out) && db.remaining_size() == 0, "encoder reported success => the metadata block decodes completely");
  }
  verif_reach();
}

// entry framing: the bytes MetadataEncoder::EncodeMetadata writes for one entry (name, varint size, value bytes -- the same
// three real calls in the same order) must be accepted by MetadataDecoder::DecodeEntry and consumed exactly.
// Metadata::AddEntryBinary is cut (no-op): the std::map behind it is outside reach.
extern "C" void h_entry_framing(void) {
  std::string name; any_name(&name);
  uint8_t val[MAXVAL];
  uint32_t vl = nondet_u32(); verif_assume(vl <= MAXVAL);
  for (uint32_t i = 0; i < MAXVAL; ++i) val[i] = nondet_u8();
  EncoderBuffer eb; eb.buffer()->reserve(MAXLEN + MAXVAL + 4);
  MetadataEncoder enc;
  verif_assert(enc.EncodeString(&eb, name), "name encodes");
  EncodeVarint(vl, &eb);                       // as in MetadataEncoder::EncodeMetadata
  eb.Encode(val, vl);
  const size_t len = eb.size();
  eb.Encode((uint8_t)nondet_u8());
  DecoderBuffer db; db.Init(eb.data(), eb.size());
  MetadataDecoder dec; dec.buffer_ = &db;
  Metadata sink;                               // AddEntryBinary is cut in the model (the native replay runs the real one)
  const bool ok = dec.DecodeEntry(&sink);
  verif_assert(ok, "an entry written by the encoder (any value length, including 0) is accepted by the decoder");
  verif_assert(!ok || (size_t)db.decoded_size() == len, "the entry is consumed exactly");
  verif_reach();
}
