// C18: every allocation made while decoding is bounded by a fixed multiple of the remaining input (checked inside the
// operator-new model: VERIF_ALLOC_BOUND is asserted at every allocation, then allocations above the chunk size are cut).
#include "verif.h"
#include "draco/core/bit_utils.cc"
#include "draco/core/decoder_buffer.cc"
#include "draco/compression/bit_coders/direct_bit_decoder.h"
#include "draco/compression/bit_coders/direct_bit_decoder.cc"
#include "draco/compression/bit_coders/rans_bit_decoder.h"
#include "draco/compression/bit_coders/rans_bit_decoder.cc"
#include "draco/compression/entropy/rans_symbol_decoder.h"
using namespace draco;
#ifndef BACKING
#define BACKING 48
#endif
struct In {
  char buf[BACKING]; uint64_t n; DecoderBuffer db;
  void init() {
    verif_fill(buf, BACKING);
    n = nondet_u64(); verif_assume(n <= BACKING);
    uint16_t ver = nondet_u16();
    db.Init(buf, n, ver);
    int64_t pos = nondet_i64(); verif_assume(pos >= 0 && pos <= (int64_t)n);
    db.pos_ = pos;
    verif_input_len = n;       // the bound refers to the length of the stream
  }
};

extern "C" void h_direct(void) {
  In in; in.init();
  DirectBitDecoder dec;
  const bool ok = dec.StartDecoding(&in.db);
  if (ok) {
    verif_assert(in.db.decoded_size() <= (int64_t)in.n, "no read past the end");
    (void)dec.DecodeNextBit();
  }
  verif_reach();
}

extern "C" void h_rans_bit(void) {
  In in; in.init();
  RAnsBitDecoder dec;
  const bool ok = dec.StartDecoding(&in.db);
  if (ok) {
    verif_assert(in.db.decoded_size() <= (int64_t)in.n, "no read past the end");
    (void)dec.DecodeNextBit();
  }
  verif_assert(verif_alloc_count == 0, "the rANS bit decoder does not allocate");
  verif_reach();
}

#ifndef USB
#define USB 5
#endif
extern "C" void h_rans_tab(void) {
  In in; in.init();
  RAnsSymbolDecoder<USB> dec;
  const bool ok = dec.Create(&in.db);     // LUT build cut (its two resize() calls are constants: 2^P and num_symbols)
  if (ok) verif_assert(in.db.decoded_size() <= (int64_t)in.n, "no read past the end");
  verif_reach();
}

// ---- crease-flag side tables of the constrained multi-parallelogram decoder: bounded by the declared number of corners
#include "draco/compression/attributes/prediction_schemes/mesh_prediction_scheme_constrained_multi_parallelogram_decoder.h"
#include "draco/compression/attributes/prediction_schemes/prediction_scheme_wrap_decoding_transform.h"
struct CountTable {   // only num_corners() is used by DecodePredictionData; the navigation API exists for the (unreached) predictor
  int nc; int num_corners() const { return nc; }
  CornerIndex SwingLeft(CornerIndex c) const { return c; } CornerIndex SwingRight(CornerIndex c) const { return c; }
  CornerIndex Opposite(CornerIndex c) const { return c; } CornerIndex Next(CornerIndex c) const { return c; }
  CornerIndex Previous(CornerIndex c) const { return c; } VertexIndex Vertex(CornerIndex) const { return VertexIndex(0); }
};
struct CountMD {
  typedef CountTable CornerTable;
  const CountTable *t;
  const CountTable *corner_table() const { return t; }
  const std::vector<int32_t> *vertex_to_data_map() const { return nullptr; }
  const std::vector<CornerIndex> *data_to_corner_map() const { return nullptr; }
  bool IsInitialized() const { return true; }
};
#ifndef MAXCORNERS
#define MAXCORNERS 3
#endif
extern "C" void h_cmpgram_flags(void) {
  In in; in.init();
  CountTable ct; ct.nc = nondet_i32(); verif_assume(ct.nc >= 0 && ct.nc <= MAXCORNERS);
  verif_input_len = in.n + (uint64_t)ct.nc;       // stream length + declared number of corners
  CountMD md{&ct};
  PredictionSchemeWrapDecodingTransform<int32_t> tr;
  MeshPredictionSchemeConstrainedMultiParallelogramDecoder<int32_t, PredictionSchemeWrapDecodingTransform<int32_t>, CountMD> dec(nullptr, tr, md);
  const bool ok = dec.DecodePredictionData(&in.db);
  if (ok) verif_assert(in.db.decoded_size() <= (int64_t)in.n, "no read past the end");
  verif_reach();
}

// ---- orientation flags of the portable tex-coord decoder: bounded by the declared number of corners
#include "draco/attributes/geometry_attribute.cc"
#include "draco/attributes/point_attribute.cc"
#include "draco/core/data_buffer.cc"
#include "draco/core/draco_types.cc"
#include "draco/compression/attributes/prediction_schemes/mesh_prediction_scheme_tex_coords_portable_decoder.h"
struct CountMD2 {
  typedef CountTable CornerTable;
  const CountTable *t; std::vector<int32_t> v2d;
  const CountTable *corner_table() const { return t; }
  const std::vector<int32_t> *vertex_to_data_map() const { return &v2d; }
  const std::vector<CornerIndex> *data_to_corner_map() const { return nullptr; }
  bool IsInitialized() const { return true; }
};
extern "C" void h_texcoords_orient(void) {
  In in; in.init();
  CountTable ct; ct.nc = nondet_i32(); verif_assume(ct.nc >= 0 && ct.nc <= MAXCORNERS);
  verif_input_len = in.n + (uint64_t)ct.nc;       // stream length + declared number of corners
  CountMD2 md; md.t = &ct;
  PredictionSchemeWrapDecodingTransform<int32_t> tr;
  MeshPredictionSchemeTexCoordsPortableDecoder<int32_t, PredictionSchemeWrapDecodingTransform<int32_t>, CountMD2> dec(nullptr, tr, md);
  const bool ok = dec.DecodePredictionData(&in.db);
  if (ok) verif_assert(in.db.decoded_size() <= (int64_t)in.n, "no read past the end");
  verif_reach();
}
