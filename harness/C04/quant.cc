// C04: scalar quantize -> dequantize chain exactly as AttributeQuantizationTransform composes it.
#include "verif.h"
#include "draco/core/quantization_utils.h"
#include "draco/core/quantization_utils.cc"
#include <math.h>
#include <string.h>
using namespace draco;
#ifndef QBITS
#define QBITS 11
#endif
#ifndef RANGE_BITS
#define RANGE_BITS 0x3f800000u   /* 1.0f */
#endif
#ifndef ULPS
#define ULPS 4
#endif
extern "C" void h_scalar(void) {
  uint32_t rb = RANGE_BITS; float range; memcpy(&range, &rb, 4);
  const int q = QBITS;
  const int32_t maxq = (1 << q) - 1;
  float v = nondet_float();
  verif_assume(v >= 0.f && v <= range);      // value - min for a value inside the box
  Quantizer qz; qz.Init(range, maxq);
  Dequantizer dq;
  verif_assert(dq.Init(range, maxq), "dequantizer accepts the parameters");
  const int32_t k = qz.QuantizeFloat(v);
  verif_assert(k >= 0 && k <= maxq + (q >= 24 ? 1 : 0), "quantized value lies in [0, 2^q-1]");
  const float r = dq.DequantizeFloat(k);
  double err = (double)r - (double)v; if (err < 0) err = -err;
  const double step = (double)range / (double)maxq;
  const double ulp = (double)range * 1.1920928955078125e-07;   // 2^-23 * range
  verif_assert(err <= 0.5 * step + ULPS * ulp, "|dequantize(quantize(v)) - v| <= step/2 + a few ulps of the range");
  verif_assert(r >= -(ULPS * ulp) && r <= (double)range + ULPS * ulp, "decoded value stays inside the box (up to the allowance)");
  verif_reach();
}
