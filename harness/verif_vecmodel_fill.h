// Contract model of one libstdc++ function: std::vector<int>::resize(n, x) growing inside the capacity that the code
// under test reserved itself (CornerTable::ComputeOppositeCorners reserves num_corners() before its counting loop).
// The real _M_fill_insert branches on capacity and may reallocate and move; the model asserts insertion at end() within
// capacity and appends.  (Listed in the trusted base of every obligation that uses it.)
#ifndef VERIF_VECMODEL_FILL_H_
#define VERIF_VECMODEL_FILL_H_
#include <vector>
#include "verif.h"
#define VERIF_VEC_FILL_MODEL(T)                                                                              \
  template <>                                                                                                \
  inline void std::vector<T>::_M_fill_insert(iterator pos, size_type n, const T &x) {                        \
    verif_assert(pos.base() == this->_M_impl._M_finish, "vector model: insertion point is end()");         \
    verif_assert((size_t)(this->_M_impl._M_end_of_storage - this->_M_impl._M_finish) >= n,                   \
                 "vector model: the reserved capacity suffices");                                          \
    const T v = x;                                                                                           \
    for (size_type i = 0; i < n; ++i) this->_M_impl._M_finish[i] = v;                                        \
    this->_M_impl._M_finish += n;                                                                            \
  }
VERIF_VEC_FILL_MODEL(int)
#endif
