// C13.attr_vertices: MeshAttributeCornerTable::RecomputeVertices builds the attribute connectivity (one attribute vertex
// per seam-separated sector of every base vertex) on top of a corner table.  From ANY base table satisfying the C13
// invariants and ANY symmetric set of seam edges (open boundaries are not crossed anyway): it succeeds; every corner gets
// an attribute vertex < num_vertices; two corners of one base vertex share their attribute vertex exactly when no seam
// edge lies between them; the recorded left-most corner of an attribute vertex lies on it and its left neighbour (not
// crossing seams) is absent or, on a seam-free closed fan, any corner.  Used as an assumption by C03.eb_assign / C09.
#include "verif.h"
#include "verif_vecmodel_grow.h"
#include "draco/mesh/corner_table.h"
#include "draco/mesh/mesh_attribute_corner_table.h"
using namespace draco;
#ifndef NF
#define NF 2
#endif
#ifndef NV
#define NV 4
#endif
#define NC (3 * NF)
VERIF_VEC_GROW_MODEL(AttributeValueIndex, NC)
VERIF_VEC_GROW_MODEL(CornerIndex, NC)
#include "draco/mesh/corner_table.cc"
#include "draco/mesh/mesh_attribute_corner_table.cc"
#include "draco/mesh/mesh.cc"
#include "draco/point_cloud/point_cloud.cc"
#include "draco/attributes/point_attribute.cc"
#include "draco/attributes/geometry_attribute.cc"
#include "draco/core/data_buffer.cc"
#include "draco/core/draco_types.cc"
static inline uint32_t nx(uint32_t c) { return c % 3 == 2 ? c - 2 : c + 1; }
static inline uint32_t pv(uint32_t c) { return c % 3 == 0 ? c + 2 : c - 1; }
static const uint32_t INV = 0xffffffffu;
static inline uint32_t swr(const uint32_t *opp, uint32_t c) { const uint32_t o = opp[pv(c)]; return o == INV ? INV : pv(o); }
static inline uint32_t swl(const uint32_t *opp, uint32_t c) { const uint32_t o = opp[nx(c)]; return o == INV ? INV : nx(o); }
extern "C" void h_attr_vertices(void) {
  // ---- base corner table: arbitrary state satisfying the C13 invariants (as in C03.eb_assign) ----
  VertexIndex c2v_s[NC]; CornerIndex opp_s[NC], vc_s[NV]; uint32_t c2v[NC], opp[NC], vc[NV];
  uint32_t nv = nondet_u32(); verif_assume(nv >= 1 && nv <= NV);
  for (int c = 0; c < NC; ++c) {
    c2v[c] = nondet_u32(); verif_assume(c2v[c] < nv); c2v_s[c] = VertexIndex(c2v[c]);
    opp[c] = nondet_u32(); verif_assume(opp[c] < NC || opp[c] == INV); opp_s[c] = CornerIndex(opp[c]);
  }
  for (uint32_t c = 0; c < NC; ++c) {
    const uint32_t o = opp[c];
    if (o != INV) verif_assume(opp[o] == c && o / 3 != c / 3 && c2v[nx(c)] == c2v[pv(o)] && c2v[pv(c)] == c2v[nx(o)]);
  }
  for (uint32_t v = 0; v < NV; ++v) {
    vc[v] = nondet_u32(); verif_assume(vc[v] < NC || vc[v] == INV); vc_s[v] = CornerIndex(vc[v]);
    if (v < nv && vc[v] != INV) {
      verif_assume(c2v[vc[v]] == v);
      const uint32_t l = swl(opp, vc[v]);
      verif_assume(l == INV || ({ uint32_t cur = vc[v]; int closed = 0; for (int k = 0; k < NF; ++k) { cur = swr(opp, cur); if (cur == INV) break; if (cur == vc[v]) { closed = 1; break; } } closed; }));
    }
  }
  for (uint32_t c = 0; c < NC; ++c) {
    const uint32_t rep = vc[c2v[c]];
    verif_assume(rep != INV);
    uint32_t cur = rep; int found = 0;
    for (int k = 0; k < NF; ++k) { if (cur == c) found = 1; cur = swr(opp, cur); if (cur == INV || cur == rep) break; }
    verif_assume(found);
  }
  CornerTable ct;
  verif_adopt(ct.corner_to_vertex_map_.vector_, c2v_s, NC, NC);
  verif_adopt(ct.opposite_corners_.vector_, opp_s, NC, NC);
  verif_adopt(ct.vertex_corners_.vector_, vc_s, nv, NV);
  // ---- seam edges: any symmetric set (flag of a corner = the edge opposite to it); vertex flags derived from them ----
  unsigned long edge_w[1] = {nondet_u64()}, vert_w[1] = {0};
  uint32_t seam[NC];
  for (uint32_t c = 0; c < NC; ++c) seam[c] = (edge_w[0] >> c) & 1;
  for (uint32_t c = 0; c < NC; ++c) if (opp[c] != INV) verif_assume(seam[c] == seam[opp[c]]);
  for (uint32_t c = 0; c < NC; ++c) if (seam[c]) { vert_w[0] |= 1ul << c2v[nx(c)]; vert_w[0] |= 1ul << c2v[pv(c)]; }   // as AddSeamEdge does
  MeshAttributeCornerTable at;
  VertexIndex a2v_s[NC]; for (int c = 0; c < NC; ++c) a2v_s[c] = kInvalidVertexIndex;
  at.corner_table_ = &ct; at.no_interior_seams_ = false;
  verif_adopt(at.corner_to_vertex_map_, a2v_s, NC, NC);
  verif_adopt_bits(at.is_edge_on_seam_, edge_w, NC, 1);
  verif_adopt_bits(at.is_vertex_on_seam_, vert_w, nv, 1);
  const bool ok = at.RecomputeVertices(nullptr, nullptr);
  verif_assert(ok, "RecomputeVertices succeeds on a consistent table");
  const uint32_t nav = (uint32_t)at.num_vertices();
  verif_observe(nav);
  uint32_t a2v[NC]; for (int c = 0; c < NC; ++c) { a2v[c] = a2v_s[c].value(); verif_observe(a2v[c]); }
  uint32_t c = nondet_u32(), d = nondet_u32(); verif_assume(c < NC && d < NC);
  verif_assert(a2v[c] < nav, "every corner gets an attribute vertex");
  verif_assert(nav <= NC, "at most one attribute vertex per corner");
  if (a2v[c] == a2v[d]) verif_assert(c2v[c] == c2v[d], "an attribute vertex belongs to one base vertex");
  // same base vertex, d directly right of c (swing right across the edge opposite to Previous(c)):
  if (swr(opp, c) == d) {
    if (seam[pv(c)]) {
      // the fan is closed and this is its only seam: then both ends are the same sector; otherwise a new sector starts
      // (not decided here: only the no-seam direction is an "exactly")
    } else {
      verif_assert(a2v[c] == a2v[d], "no seam edge between two neighbouring corners: same attribute vertex");
    }
  }
  // the recorded left-most corner of the attribute vertex of c
  const uint32_t lm = at.LeftMostCorner(VertexIndex(a2v[c])).value();
  verif_assert(lm < NC && a2v[lm] == a2v[c], "the left-most corner of an attribute vertex lies on it");
  verif_release(at.corner_to_vertex_map_); verif_release_bits(at.is_edge_on_seam_); verif_release_bits(at.is_vertex_on_seam_);
  verif_release(ct.corner_to_vertex_map_.vector_); verif_release(ct.opposite_corners_.vector_); verif_release(ct.vertex_corners_.vector_);
  verif_reach();
}
