// C13: the three phases of CornerTable::Init, each driven on the REAL member function with the table's state set
// directly (inductive decomposition: phase k starts from an arbitrary state satisfying the post-condition of phase k-1).
#include "verif.h"
#include "verif_vecmodel_fill.h"
#include "verif_vecmodel_grow.h"
#include "draco/mesh/corner_table.h"
using namespace draco;
#ifndef NF
#define NF 2
#endif
#ifndef NV
#define NV 4
#endif
#define NC (3 * NF)
typedef std::pair<VertexIndex, CornerIndex> SinkPair;
VERIF_VEC_GROW_MODEL(SinkPair, NF)
VERIF_VEC_FILL_MODEL(VertexIndex)
VERIF_VEC_FILL_MODEL(CornerIndex)
#include "draco/mesh/corner_table.cc"
static inline uint32_t nx(uint32_t c) { return c % 3 == 2 ? c - 2 : c + 1; }
static inline uint32_t pv(uint32_t c) { return c % 3 == 0 ? c + 2 : c - 1; }
static const uint32_t INV = 0xffffffffu;

// the opposite relation is a symmetric pairing of corners across a shared, oppositely oriented edge of two different,
// non-degenerate, non-mirrored faces (vertex ids taken from c2v).  Checked at ONE symbolic corner (= every corner).
static int opposite_ok_at(const uint32_t *c2v, const uint32_t *opp, uint32_t c) {
  const uint32_t o = opp[c];
  if (o == INV) return 1;
  if (o >= NC) return 0;
  const uint32_t f = 3 * (c / 3);
  return opp[o] == c && o / 3 != c / 3 && c2v[nx(c)] == c2v[pv(o)] && c2v[pv(c)] == c2v[nx(o)] && c2v[c] != c2v[o] &&
         c2v[f] != c2v[f + 1] && c2v[f] != c2v[f + 2] && c2v[f + 1] != c2v[f + 2];
}
static int nondeg(const uint32_t *c2v, uint32_t c) {
  const uint32_t f = 3 * (c / 3);
  return c2v[f] != c2v[f + 1] && c2v[f] != c2v[f + 2] && c2v[f + 1] != c2v[f + 2];
}

// (the index arrays are separate small objects: a symbolic index then ranges over 4*NC bytes, not over the whole table)
struct Tab {
  CornerTable ct;
  VertexIndex *c2v_s; CornerIndex *opp_s;
  Tab(VertexIndex *a, CornerIndex *b) : c2v_s(a), opp_s(b) {}
  void adopt() {
    verif_adopt(ct.corner_to_vertex_map_.vector_, c2v_s, NC, NC);
    verif_adopt(ct.opposite_corners_.vector_, opp_s, NC, NC);
  }
  void release() { verif_release(ct.corner_to_vertex_map_.vector_); verif_release(ct.opposite_corners_.vector_); }
};

// phase 1: ComputeOppositeCorners on ANY triangle list
extern "C" void h_opposite(void) {
  VertexIndex c2v_store[NC]; CornerIndex opp_store[NC]; Tab t(c2v_store, opp_store); uint32_t c2v[NC], opp[NC];
  for (int c = 0; c < NC; ++c) { c2v[c] = nondet_u32(); verif_assume(c2v[c] < NV); t.c2v_s[c] = VertexIndex(c2v[c]); t.opp_s[c] = kInvalidCornerIndex; }
  t.adopt();
  int nv = -1;
  verif_assert(t.ct.ComputeOppositeCorners(&nv), "ComputeOppositeCorners succeeds");
  uint32_t mx = 0;
  for (int c = 0; c < NC; ++c) { if (c2v[c] > mx) mx = c2v[c]; opp[c] = t.opp_s[c].value(); verif_observe(opp[c]);
    verif_assert(t.c2v_s[c].value() == c2v[c], "corner -> vertex map unchanged by phase 1"); }
  verif_assert(nv == (int)mx + 1, "vertex count is the largest id + 1");
  uint32_t c = nondet_u32(), o = nondet_u32(); verif_assume(c < NC && o < NC);
  verif_assert(opposite_ok_at(c2v, opp, c), "opposite is a symmetric pairing across a shared, oppositely oriented edge; degenerate faces unlinked");
  // completeness for manifold input: two non-degenerate faces with a shared oppositely oriented edge and no third
  // half-edge on the same end points get connected
  if (o / 3 != c / 3 && nondeg(c2v, c) && nondeg(c2v, o) && c2v[nx(c)] == c2v[pv(o)] && c2v[pv(c)] == c2v[nx(o)] && c2v[c] != c2v[o]) {
    int unique = 1;
    for (uint32_t x = 0; x < NC; ++x) {
      if (x == c || x == o) continue;
      const uint32_t a = c2v[nx(x)], b = c2v[pv(x)];
      if ((a == c2v[nx(c)] && b == c2v[pv(c)]) || (a == c2v[pv(c)] && b == c2v[nx(c)])) unique = 0;
    }
    if (unique) verif_assert(opp[c] == o, "a manifold edge shared by exactly two consistently oriented faces is connected");
  }
  t.release();
  verif_reach();
}

// arbitrary state satisfying the post-condition of phase 1
static void any_consistent(Tab &t, uint32_t *c2v, uint32_t *opp) {
  for (int c = 0; c < NC; ++c) {
    c2v[c] = nondet_u32(); verif_assume(c2v[c] < NV); t.c2v_s[c] = VertexIndex(c2v[c]);
    opp[c] = nondet_u32(); verif_assume(opp[c] < NC || opp[c] == INV); t.opp_s[c] = CornerIndex(opp[c]);
  }
  for (uint32_t c = 0; c < NC; ++c) verif_assume(opposite_ok_at(c2v, opp, c));
}

// phase 2: BreakNonManifoldEdges from ANY consistent state: terminates (unwinding assertions), only removes links,
// keeps the pairing consistent and the corner -> vertex map untouched
extern "C" void h_break(void) {
  VertexIndex c2v_store[NC]; CornerIndex opp_store[NC]; Tab t(c2v_store, opp_store); uint32_t c2v[NC], opp[NC], opp2[NC];
  any_consistent(t, c2v, opp);
  t.adopt();
  verif_assert(t.ct.BreakNonManifoldEdges(), "BreakNonManifoldEdges succeeds");
  for (int c = 0; c < NC; ++c) { opp2[c] = t.opp_s[c].value(); verif_observe(opp2[c]); }
  uint32_t c = nondet_u32(); verif_assume(c < NC);
  verif_assert(t.c2v_s[c].value() == c2v[c], "corner -> vertex map unchanged by phase 2");
  verif_assert(opp2[c] == opp[c] || opp2[c] == INV, "phase 2 only removes links");
  verif_assert(opposite_ok_at(c2v, opp2, c), "opposite stays a symmetric pairing across a shared, oppositely oriented edge");
  t.release();
#ifdef BREAK_HITS
  // reachability twin: the vacuity witness of this variant is reachable only if some link was removed, i.e. only
  // through the edge-breaking branch
  { int removed = 0; for (int k = 0; k < NC; ++k) if (opp2[k] != opp[k]) removed = 1; verif_assume(removed); }
#endif
  verif_reach();
}

// phase 3: ComputeVertexCorners from ANY consistent state
static inline uint32_t swr(const uint32_t *opp, uint32_t c) { const uint32_t o = opp[pv(c)]; return o == INV ? INV : pv(o); }
extern "C" void h_vertex_corners(void) {
  VertexIndex c2v_store[NC]; CornerIndex opp_store[NC]; Tab t(c2v_store, opp_store); uint32_t c2v[NC], opp[NC], c2v2[NC];
  any_consistent(t, c2v, opp);
  t.adopt();
  CornerIndex vc_s[NV + NC]; VertexIndex par_s[NC];
  uint32_t nv = nondet_u32(); verif_assume(nv <= NV);
  for (int c = 0; c < NC; ++c) verif_assume(c2v[c] < nv);
  for (int i = 0; i < NV + NC; ++i) vc_s[i] = kInvalidCornerIndex;
  verif_adopt(t.ct.vertex_corners_.vector_, vc_s, nv, NV + NC);
  verif_adopt(t.ct.non_manifold_vertex_parents_.vector_, par_s, 0, NC);
  verif_assert(t.ct.ComputeVertexCorners((int)nv), "ComputeVertexCorners succeeds");
  const uint32_t nv2 = (uint32_t)t.ct.num_vertices();
  verif_observe(nv2);
  verif_assert(nv2 >= nv && nv2 <= NV + NC, "vertex count only grows, by at most one per corner");
  verif_assert(t.ct.num_original_vertices_ == (int)nv && t.ct.non_manifold_vertex_parents_.size() == nv2 - nv, "one parent per new vertex");
  for (int c = 0; c < NC; ++c) { c2v2[c] = t.c2v_s[c].value(); verif_observe(c2v2[c]); }
  uint32_t c = nondet_u32(), d = nondet_u32(); verif_assume(c < NC && d < NC);
  verif_assert(t.opp_s[c].value() == opp[c], "phase 3 leaves the opposite relation alone");
  verif_assert(opposite_ok_at(c2v2, opp, c), "the pairing is still across a shared edge in the NEW vertex ids");
  if (nondeg(c2v, c)) {
    // (3) the corner maps, through the parent relation, to the vertex id given in the input
    verif_assert(c2v2[c] < nv2, "vertex id in range");
    const uint32_t parent = c2v2[c] < nv ? c2v2[c] : par_s[c2v2[c] - nv].value();
    verif_assert(parent == c2v[c], "corner of a non-degenerate face maps through the parent relation to the input vertex id");
    // (2) all corners of a vertex form one fan reachable from its representative (left-most) corner
    const uint32_t v = c2v2[c];
    const uint32_t rep = vc_s[v].value();
    verif_assert(rep < NC && c2v2[rep] == v, "the representative corner lies on its vertex");
    uint32_t cur = rep; int found = 0;
    for (int k = 0; k < NF; ++k) { if (cur == c) found = 1; cur = swr(opp, cur); if (cur == INV || cur == rep) break; }
    verif_assert(found, "every corner of a vertex is reached by swinging right from the representative corner");
    // and two corners on different fans never share a vertex id
    if (nondeg(c2v, d) && c2v2[d] == v) {
      uint32_t cu = rep; int fd = 0;
      for (int k = 0; k < NF; ++k) { if (cu == d) fd = 1; cu = swr(opp, cu); if (cu == INV || cu == rep) break; }
      verif_assert(fd, "corners with the same vertex id lie on the same fan");
    }
  } else {
    verif_assert(c2v2[c] == c2v[c], "corners of degenerate faces keep their vertex id");
  }
  t.release(); verif_release(t.ct.vertex_corners_.vector_); verif_release(t.ct.non_manifold_vertex_parents_.vector_);
  verif_reach();
}

// the whole construction: the real CornerTable::Init on ANY triangle list (member vectors pre-reserved by the harness)
extern "C" void h_init(void) {
  VertexIndex c2v_store[NC]; CornerIndex opp_store[NC]; Tab t(c2v_store, opp_store); uint32_t in[NC], c2v2[NC], opp[NC];
  CornerTable::FaceType face_s[NF]; IndexTypeVector<FaceIndex, CornerTable::FaceType> faces;
  for (int c = 0; c < NC; ++c) { in[c] = nondet_u32(); verif_assume(in[c] < NV); face_s[c / 3][c % 3] = VertexIndex(in[c]); }
  verif_adopt(faces.vector_, face_s, NF, NF);
  verif_adopt(t.ct.corner_to_vertex_map_.vector_, c2v_store, 0, NC);
  verif_adopt(t.ct.opposite_corners_.vector_, opp_store, 0, NC);
  CornerIndex vc_s[NV + NC]; VertexIndex par_s[NC];
  verif_adopt(t.ct.vertex_corners_.vector_, vc_s, 0, NV + NC);
  verif_adopt(t.ct.non_manifold_vertex_parents_.vector_, par_s, 0, NC);
  verif_assert(t.ct.Init(faces), "Init succeeds");
  uint32_t mx = 0; for (int c = 0; c < NC; ++c) if (in[c] > mx) mx = in[c];
  const uint32_t nv = mx + 1, nv2 = (uint32_t)t.ct.num_vertices();
  verif_assert(t.ct.num_corners() == NC && t.ct.num_faces() == NF, "sizes");
  verif_assert(nv2 >= nv && nv2 <= NV + NC, "vertex count");
  for (int c = 0; c < NC; ++c) { c2v2[c] = c2v_store[c].value(); opp[c] = opp_store[c].value(); verif_observe(c2v2[c]); verif_observe(opp[c]); }
  uint32_t c = nondet_u32(); verif_assume(c < NC);
  verif_assert(opposite_ok_at(c2v2, opp, c), "opposite is a symmetric pairing across a shared, oppositely oriented edge; degenerate faces unlinked");
  verif_assert(opposite_ok_at(in, opp, c), "... also in terms of the input vertex ids");
  if (nondeg(in, c)) {
    verif_assert(c2v2[c] < nv2, "vertex id in range");
    verif_assert(t.ct.VertexParent(VertexIndex(c2v2[c])).value() == in[c], "corner of a non-degenerate face maps through VertexParent to the input vertex id");
    const uint32_t rep = t.ct.LeftMostCorner(VertexIndex(c2v2[c])).value();
    verif_assert(rep < NC && c2v2[rep] == c2v2[c], "representative corner lies on its vertex");
    uint32_t cur = rep; int found = 0;
    for (int k = 0; k < NF; ++k) { if (cur == c) found = 1; cur = swr(opp, cur); if (cur == INV || cur == rep) break; }
    verif_assert(found, "every corner of a vertex is reached by swinging right from the representative corner");
  }
  t.release(); verif_release(t.ct.vertex_corners_.vector_); verif_release(t.ct.non_manifold_vertex_parents_.vector_); verif_release(faces.vector_);
  verif_reach();
}
