// Contract model of the out-of-line red-black tree primitives of libstdc++ (src/c++98/tree.cc has no IR):
// an UNBALANCED binary search tree insert and in-order successor/predecessor.  Sound for code that depends only on
// ordered iteration and lookup (std::map as used by draco::Metadata), not on the tree shape.  Listed in the trusted base
// of the obligations that use it.  erase is not modelled (reaching it is reported as a missing body).
#ifndef VERIF_RBTREE_MODEL_H_
#define VERIF_RBTREE_MODEL_H_
#include <map>
namespace std {
inline void _Rb_tree_insert_and_rebalance(const bool insert_left, _Rb_tree_node_base *x, _Rb_tree_node_base *p,
                                          _Rb_tree_node_base &header) throw() {
  x->_M_parent = p; x->_M_left = 0; x->_M_right = 0; x->_M_color = _S_red;
  if (insert_left) {
    p->_M_left = x;                     // also makes leftmost = x when p == &header
    if (p == &header) { header._M_parent = x; header._M_right = x; }
    else if (p == header._M_left) header._M_left = x;
  } else {
    p->_M_right = x;
    if (p == header._M_right) header._M_right = x;
  }
}
inline _Rb_tree_node_base *_Rb_tree_increment(_Rb_tree_node_base *x) throw() {
  if (x->_M_right != 0) { x = x->_M_right; while (x->_M_left != 0) x = x->_M_left; }
  else {
    _Rb_tree_node_base *y = x->_M_parent;
    while (x == y->_M_right) { x = y; y = y->_M_parent; }
    if (x->_M_right != y) x = y;
  }
  return x;
}
inline const _Rb_tree_node_base *_Rb_tree_increment(const _Rb_tree_node_base *x) throw() {
  return _Rb_tree_increment(const_cast<_Rb_tree_node_base *>(x));
}
inline _Rb_tree_node_base *_Rb_tree_decrement(_Rb_tree_node_base *x) throw() {
  if (x->_M_color == _S_red && x->_M_parent->_M_parent == x) x = x->_M_right;
  else if (x->_M_left != 0) { _Rb_tree_node_base *y = x->_M_left; while (y->_M_right != 0) y = y->_M_right; x = y; }
  else { _Rb_tree_node_base *y = x->_M_parent; while (x == y->_M_left) { x = y; y = y->_M_parent; } x = y; }
  return x;
}
inline const _Rb_tree_node_base *_Rb_tree_decrement(const _Rb_tree_node_base *x) throw() {
  return _Rb_tree_decrement(const_cast<_Rb_tree_node_base *>(x));
}
}  // namespace std
#endif
