// C12.init_explicit: with explicit quantization, SequentialQuantizationAttributeEncoder::Init must take bits, origin and
// range from the options stored under THIS attribute's id, whatever is stored under any other key.  The real encoder
// object is initialised on a real PointCloud with two attributes; the option store (std::map<std::string,...> per key)
// is replaced by a harness-controlled table, for the model AND the native build (explicit specialisation of the four
// accessors the encoder calls).
#include "verif.h"
#include "draco/compression/config/encoder_options.h"
#define NKEY 4
struct VOpt { int bits; bool origin_set, range_set; float origin[4]; float range; };
VOpt verif_opt[NKEY];
static int verif_opt_kind(const std::string &n) {   // 0 prediction_scheme, 1 quantization_bits, 2 quantization_origin, 3 quantization_range
  if (n[0] == 'p') return 0;
  return n.size() == 17 ? 1 : (n.size() == 19 ? 2 : 3);
}
namespace draco {
template <> int DracoOptions<int>::GetAttributeInt(const int &k, const std::string &n, int d) const {
  if (verif_opt_kind(n) == 0) return -2;                        // no prediction scheme (not the subject)
  return (verif_opt_kind(n) == 1 && (unsigned)k < NKEY) ? verif_opt[k].bits : d;
}
template <> float DracoOptions<int>::GetAttributeFloat(const int &k, const std::string &n, float d) const {
  return (verif_opt_kind(n) == 3 && (unsigned)k < NKEY && verif_opt[k].range_set) ? verif_opt[k].range : d;
}
template <> bool DracoOptions<int>::IsAttributeOptionSet(const int &k, const std::string &n) const {
  if ((unsigned)k >= NKEY) return false;
  return verif_opt_kind(n) == 2 ? verif_opt[k].origin_set : (verif_opt_kind(n) == 3 ? verif_opt[k].range_set : false);
}
template <> template <> bool DracoOptions<int>::GetAttributeVector<float>(const int &k, const std::string &n, int nd, float *v) const {
  if ((unsigned)k >= NKEY || verif_opt_kind(n) != 2 || !verif_opt[k].origin_set) return false;
  for (int i = 0; i < nd && i < 4; ++i) v[i] = verif_opt[k].origin[i];
  return true;
}
}  // namespace draco
#include "draco/compression/attributes/sequential_quantization_attribute_encoder.cc"
#include "draco/compression/attributes/sequential_integer_attribute_encoder.cc"
#include "draco/compression/attributes/sequential_attribute_encoder.cc"
#include "draco/compression/attributes/prediction_schemes/prediction_scheme_encoder_factory.cc"
#include "draco/compression/point_cloud/point_cloud_encoder.cc"
#include "draco/attributes/attribute_quantization_transform.cc"
#include "draco/attributes/attribute_transform.cc"
#include "draco/attributes/geometry_attribute.cc"
#include "draco/attributes/point_attribute.cc"
#include "draco/point_cloud/point_cloud.cc"
#include "draco/core/data_buffer.cc"
#include "draco/core/draco_types.cc"
#include "draco/core/quantization_utils.cc"
#include "draco/core/encoder_buffer.cc"
#include "draco/core/bit_utils.cc"
#include <string.h>
using namespace draco;
static uint32_t fbits(float f) { uint32_t u; memcpy(&u, &f, 4); return u; }
struct BareEncoder : public PointCloudEncoder {
  uint8_t GetEncodingMethod() const override { return 0; }
  bool GenerateAttributesEncoder(int32_t) override { return false; }
  Status EncodeGeometryData() override { return OkStatus(); }
  void ComputeNumberOfEncodedPoints() override {}
};
extern "C" void h_init_explicit(void) {
  for (int k = 0; k < NKEY; ++k) {
    verif_opt[k].bits = nondet_i32(); verif_opt[k].origin_set = nondet_bool(); verif_opt[k].range_set = nondet_bool();
    for (int i = 0; i < 4; ++i) verif_opt[k].origin[i] = nondet_float();
    verif_opt[k].range = nondet_float();
  }
  // two float attributes of arbitrary semantic type: the attribute id and the type enum value differ in general
  PointCloud pc;
  GeometryAttribute ga[2]; PointAttribute pa[2]; std::unique_ptr<PointAttribute> slots[2];
  uint8_t ncomp[2];
  for (int i = 0; i < 2; ++i) {
    const uint8_t ty = nondet_u8(); verif_assume(ty <= (uint8_t)GeometryAttribute::GENERIC);
    ncomp[i] = nondet_u8(); verif_assume(ncomp[i] >= 1 && ncomp[i] <= 3);
    ga[i].Init((GeometryAttribute::Type)ty, nullptr, ncomp[i], DT_FLOAT32, false, 4 * ncomp[i], 0);
    pa[i].GeometryAttribute::operator=(ga[i]);
    slots[i].reset(&pa[i]);
  }
  verif_adopt(pc.attributes_, slots, 2, 2);
  EncoderOptions opts = EncoderOptions::CreateEmptyOptions();
  BareEncoder enc; enc.point_cloud_ = &pc; enc.options_ = &opts;
  const int id = nondet_bool() ? 1 : 0;
  verif_assume(verif_opt[id].origin_set && verif_opt[id].range_set);      // explicit quantization requested for THIS attribute
  SequentialQuantizationAttributeEncoder q;
  const bool ok = q.Init(&enc, id);
  verif_observe(ok);
  const AttributeQuantizationTransform &t = q.attribute_quantization_transform_;
  const int bits = verif_opt[id].bits;
  const float r = verif_opt[id].range;
  if (ok) {
    verif_assert(t.quantization_bits() == bits, "bits come from this attribute's options");
    verif_assert(fbits(t.range()) == fbits(r), "range comes from this attribute's options, verbatim");
    for (int i = 0; i < 3; ++i) if (i < ncomp[id]) verif_assert(fbits(t.min_value(i)) == fbits(verif_opt[id].origin[i]), "origin comes from this attribute's options, verbatim");
  } else {
    { // (a stricter validation of non-finite or non-positive ranges / non-finite origins would be legitimate: not asserted against)
      bool usable = r > 0.f && r < 3e38f;
      for (int i = 0; i < 3; ++i) if (i < ncomp[id]) { const float o = verif_opt[id].origin[i]; usable = usable && o > -3e38f && o < 3e38f; }
      verif_assert(bits < 1 || bits > 30 || !usable, "usable explicit parameters are only refused when the bit count is unusable");
    }
  }
  verif_release(pc.attributes_); slots[0].release(); slots[1].release();
  verif_reach();
}
