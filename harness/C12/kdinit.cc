// C12.kd_init_explicit: with explicit quantization, KdTreeAttributesEncoder::TransformAttributesToPortableFormat must
// take bits, origin and range from the options stored under THIS attribute's id (for every positive range, also < 1),
// whatever is stored under any other key, and must not fall back to the data-dependent parameters.
// Real encoder / PointCloud / PointAttribute objects; the option store is the table model of C12.init_explicit.
#include "verif.h"
#include "draco/compression/config/encoder_options.h"
#define NKEY 4
struct VOpt { int bits; bool origin_set, range_set; float origin[4]; float range; };
VOpt verif_opt[NKEY];
static int verif_opt_kind(const std::string &n) {   // 0 other, 1 quantization_bits, 2 quantization_origin, 3 quantization_range
  if (n[0] != 'q') return 0;
  return n.size() == 17 ? 1 : (n.size() == 19 ? 2 : (n.size() == 18 ? 3 : 0));
}
namespace draco {
template <> int DracoOptions<int>::GetAttributeInt(const int &k, const std::string &n, int d) const {
  if ((unsigned)k >= NKEY) return d;
  if (verif_opt_kind(n) == 1) return verif_opt[k].bits;
  // an option stored as a float and read as an int: the real store keeps text and converts with atoi (truncation)
  if (verif_opt_kind(n) == 3 && verif_opt[k].range_set) { const float r = verif_opt[k].range; return (r > -2e9f && r < 2e9f) ? (int)r : d; }
  return d;
}
template <> float DracoOptions<int>::GetAttributeFloat(const int &k, const std::string &n, float d) const {
  return (verif_opt_kind(n) == 3 && (unsigned)k < NKEY && verif_opt[k].range_set) ? verif_opt[k].range : d;
}
template <> bool DracoOptions<int>::IsAttributeOptionSet(const int &k, const std::string &n) const {
  if ((unsigned)k >= NKEY) return false;
  return verif_opt_kind(n) == 2 ? verif_opt[k].origin_set : (verif_opt_kind(n) == 3 ? verif_opt[k].range_set : false);
}
template <> template <> bool DracoOptions<int>::GetAttributeVector<float>(const int &k, const std::string &n, int nd, float *v) const {
  if ((unsigned)k >= NKEY || verif_opt_kind(n) != 2 || !verif_opt[k].origin_set) return false;
  for (int i = 0; i < nd && i < 4; ++i) v[i] = verif_opt[k].origin[i];
  return true;
}
}  // namespace draco
#include "draco/compression/attributes/kd_tree_attributes_encoder.cc"
#include "draco/compression/attributes/attributes_encoder.cc"
#include "draco/compression/point_cloud/point_cloud_encoder.cc"
#include "draco/attributes/attribute_quantization_transform.cc"
#include "draco/attributes/attribute_transform.cc"
#include "draco/attributes/geometry_attribute.cc"
#include "draco/attributes/point_attribute.cc"
#include "draco/point_cloud/point_cloud.cc"
#include "draco/core/data_buffer.cc"
#include "draco/core/draco_types.cc"
#include "draco/core/quantization_utils.cc"
#include "draco/core/encoder_buffer.cc"
#include "draco/core/bit_utils.cc"
#include <string.h>
using namespace draco;
static uint32_t fbits(float f) { uint32_t u; memcpy(&u, &f, 4); return u; }
struct BareEncoder : public PointCloudEncoder {
  uint8_t GetEncodingMethod() const override { return 1; }
  bool GenerateAttributesEncoder(int32_t) override { return false; }
  Status EncodeGeometryData() override { return OkStatus(); }
  void ComputeNumberOfEncodedPoints() override {}
};
extern "C" void h_kd_init_explicit(void) {
  for (int k = 0; k < NKEY; ++k) {
    verif_opt[k].bits = nondet_i32(); verif_opt[k].origin_set = nondet_bool(); verif_opt[k].range_set = nondet_bool();
    for (int i = 0; i < 4; ++i) verif_opt[k].origin[i] = nondet_float();
    verif_opt[k].range = nondet_float();
  }
  // one float attribute (1 component, 1 value) at attribute id `id`; the other slot holds an unrelated attribute
  uint8_t bytes[2][4]; PointAttribute pa[2]; DataBuffer db[2]; std::unique_ptr<PointAttribute> slots[2];
  for (int i = 0; i < 2; ++i) {
    const uint8_t ty = nondet_u8(); verif_assume(ty <= (uint8_t)GeometryAttribute::GENERIC);
    verif_fill(bytes[i], 4);
    verif_adopt(db[i].data_, bytes[i], 4, 4);
    pa[i].GeometryAttribute::Init((GeometryAttribute::Type)ty, &db[i], 1, DT_FLOAT32, false, 4, 0);
    pa[i].attribute_buffer_.reset(&db[i]); pa[i].identity_mapping_ = true; pa[i].num_unique_entries_ = 1;
    slots[i].reset(&pa[i]);
  }
  PointCloud pc; pc.num_points_ = 1; verif_adopt(pc.attributes_, slots, 2, 2);
  EncoderOptions opts = EncoderOptions::CreateEmptyOptions();
  BareEncoder pce; pce.point_cloud_ = &pc; pce.options_ = &opts;
#ifndef ATT_ID
#define ATT_ID 1
#endif
  int32_t id = ATT_ID;   // concrete: a symbolic id makes the encoder's data-type dispatch symbolic as well
  verif_assume(verif_opt[id].origin_set && verif_opt[id].range_set);      // explicit quantization requested for THIS attribute
  verif_assume(verif_opt[id].range > 0.f && verif_opt[id].range < 3e38f);  // any finite positive range, also below 1
  verif_assume(verif_opt[id].origin[0] > -3e38f && verif_opt[id].origin[0] < 3e38f);   // (stricter validation of non-finite values would be legitimate)
  KdTreeAttributesEncoder enc; enc.point_cloud_encoder_ = &pce; enc.point_cloud_ = &pc;
  verif_adopt(enc.point_attribute_ids_, &id, 1, 1);
  AttributeQuantizationTransform tr_s[1]; std::unique_ptr<PointAttribute> port_s[1];
  verif_adopt(enc.attribute_quantization_transforms_, tr_s, 0, 1);
  verif_adopt(enc.quantized_portable_attributes_, port_s, 0, 1);
  const bool ok = enc.TransformAttributesToPortableFormat();
  verif_observe(ok);
  if (ok) {
    verif_assert(enc.attribute_quantization_transforms_.size() == 1, "one transform for the float attribute");
    const AttributeQuantizationTransform &t = tr_s[0];
    verif_assert(t.quantization_bits() == verif_opt[id].bits, "bits come from the options of this attribute");
    verif_assert(fbits(t.range()) == fbits(verif_opt[id].range), "range comes from the options of this attribute, verbatim");
    verif_assert(fbits(t.min_value(0)) == fbits(verif_opt[id].origin[0]), "origin comes from the options of this attribute, verbatim");
  } else {
    verif_assert(verif_opt[id].bits < 1 || verif_opt[id].bits > 30, "explicit parameters are only refused when the bit count is unusable");
  }
  port_s[0].release();   // (the creation of the portable attribute is cut by stubs: nothing to free)
  for (int i = 0; i < 2; ++i) { slots[i].release(); pa[i].attribute_buffer_.release(); verif_release(db[i].data_); }
  verif_release(pc.attributes_); verif_release(enc.point_attribute_ids_);
  verif_release(enc.attribute_quantization_transforms_); verif_release(enc.quantized_portable_attributes_);
  verif_reach();
}
