// Contract model of std::vector<T>::push_back growth (libstdc++ _M_realloc_insert) for a vector that the code under
// test fills by push_back from empty: the first growth allocates room for CAP elements at once, later growth is asserted
// not to happen.  Capacity is unobservable to the code under test (it only uses push_back / clear / iteration), so the
// model differs from libstdc++ only in WHEN storage is obtained.  Real geometric growth through the unmodified
// libstdc++ code is covered by C17.varint_grow_*.  (Listed in the trusted base of every obligation that uses it.)
#ifndef VERIF_VECMODEL_GROW_H_
#define VERIF_VECMODEL_GROW_H_
#include <new>
#include <vector>
#include "verif.h"
// Storage comes from ONE static pool per element type (a single object for the solver: an allocation inside an unwound
// loop would otherwise create one dynamic object per unwinding and every later access would split over all of them);
// at most one such vector may be alive at a time (asserted).
#define VERIF_VEC_GROW_MODEL(T, CAP)                                                                        \
  T verif_pool_##T[CAP]; bool verif_pool_used_##T = false;                                                  \
  template <> template <>                                                                                   \
  inline void std::vector<T>::_M_realloc_insert<const T &>(iterator pos, const T &x) {                      \
    verif_assert(pos.base() == this->_M_impl._M_finish, "vector model: insertion point is end()");        \
    verif_assert(this->_M_impl._M_start == nullptr && !verif_pool_used_##T, "vector model: the first allocation suffices"); \
    verif_pool_used_##T = true;                                                                             \
    T *p = verif_pool_##T;                                                                                  \
    this->_M_impl._M_start = p; this->_M_impl._M_end_of_storage = p + (CAP);                                \
    *p = x;                                                                                                 \
    this->_M_impl._M_finish = p + 1;                                                                        \
  }                                                                                                         \
  template <>                                                                                               \
  inline void std::_Vector_base<T, std::allocator<T>>::_M_deallocate(T *p, size_t n) {                      \
    if (p == verif_pool_##T) verif_pool_used_##T = false;                                                   \
    else if (p) ::operator delete(p);                                                                       \
  }
// Variant with a VIRTUAL PREFIX, for a LOCAL vector of the code under test that is only appended to and asked for its
// size (never read): the harness arms the model (verif_vec_prefix_armed_T = true, verif_vec_prefix_T = K) right before
// the call; the first default-constructed std::vector<T> then behaves as if K elements had already been pushed:
// start = pool - K (never dereferenced), finish = pool, capacity = CAP more elements.  Lets a harness state "any number
// of entries already exist" without running the code that created them.  A read of a prefix element is an
// out-of-bounds access and is reported; the pointer `pool - K` is formed but never used for an access (the native
// replay therefore runs without -fsanitize=pointer-overflow).
#define VERIF_VEC_PREFIX_MODEL(T, CAP)                                                                      \
  T verif_pool_##T[CAP]; bool verif_pool_used_##T = false; bool verif_vec_prefix_armed_##T = false;         \
  unsigned long verif_vec_prefix_##T = 0;                                                                   \
  template <>                                                                                               \
  inline std::_Vector_base<T, std::allocator<T>>::_Vector_impl_data::_Vector_impl_data() noexcept {         \
    if (verif_vec_prefix_armed_##T) {                                                                       \
      verif_vec_prefix_armed_##T = false; verif_pool_used_##T = true;                                       \
      _M_start = verif_pool_##T - verif_vec_prefix_##T; _M_finish = verif_pool_##T;                         \
      _M_end_of_storage = verif_pool_##T + (CAP);                                                           \
    } else {                                                                                                \
      _M_start = nullptr; _M_finish = nullptr; _M_end_of_storage = nullptr;                                 \
    }                                                                                                       \
  }                                                                                                         \
  template <> template <>                                                                                   \
  inline void std::vector<T>::_M_realloc_insert<T>(iterator pos, T &&x) {                                   \
    verif_assert(0, "vector model: the capacity of the pool suffices");                                   \
  }                                                                                                         \
  template <>                                                                                               \
  inline void std::_Vector_base<T, std::allocator<T>>::_M_deallocate(T *p, size_t n) {                      \
    if (verif_pool_used_##T && p == verif_pool_##T - verif_vec_prefix_##T) verif_pool_used_##T = false;     \
    else if (p) ::operator delete(p);                                                                       \
  }
// the same model for push_back(T&&) / emplace_back(T)
#define VERIF_VEC_GROW_MODEL_RV(T, CAP)                                                                     \
  T verif_pool_##T[CAP]; bool verif_pool_used_##T = false;                                                  \
  template <> template <>                                                                                   \
  inline void std::vector<T>::_M_realloc_insert<T>(iterator pos, T &&x) {                                   \
    verif_assert(pos.base() == this->_M_impl._M_finish, "vector model: insertion point is end()");        \
    verif_assert(this->_M_impl._M_start == nullptr && !verif_pool_used_##T, "vector model: the first allocation suffices"); \
    verif_pool_used_##T = true;                                                                             \
    T *p = verif_pool_##T;                                                                                  \
    this->_M_impl._M_start = p; this->_M_impl._M_end_of_storage = p + (CAP);                                \
    *p = x;                                                                                                 \
    this->_M_impl._M_finish = p + 1;                                                                        \
  }                                                                                                         \
  template <>                                                                                               \
  inline void std::_Vector_base<T, std::allocator<T>>::_M_deallocate(T *p, size_t n) {                      \
    if (p == verif_pool_##T) verif_pool_used_##T = false;                                                   \
    else if (p) ::operator delete(p);                                                                       \
  }
#endif
