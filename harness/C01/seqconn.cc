// C01.seq_conn_rt: sequential mesh connectivity  encoder -> decoder  on the real encoder/decoder/Mesh objects, for
// every number of points (all index-width branches and their boundaries) and every valid face.
#include "verif.h"
#include "verif_vecmodel.h"
#include "draco/compression/mesh/mesh_sequential_decoder.h"
#include "draco/compression/mesh/mesh_sequential_decoder.cc"
#include "draco/compression/mesh/mesh_sequential_encoder.h"
#include "draco/compression/mesh/mesh_sequential_encoder.cc"
#include "draco/compression/mesh/mesh_decoder.cc"
#include "draco/compression/mesh/mesh_encoder.cc"
#include "draco/compression/point_cloud/point_cloud_decoder.cc"
#include "draco/compression/point_cloud/point_cloud_encoder.cc"
#include "draco/core/decoder_buffer.cc"
#include "draco/core/encoder_buffer.cc"
#include "draco/core/bit_utils.cc"
#include "draco/core/data_buffer.cc"
#include "draco/core/draco_types.cc"
#include "draco/core/options.cc"
#include "draco/mesh/mesh.cc"
#include "draco/point_cloud/point_cloud.cc"
#include "draco/attributes/point_attribute.cc"
#include "draco/attributes/geometry_attribute.cc"
using namespace draco;

extern "C" void h_seq_conn_rt(void) {
  Mesh in;
  uint32_t np = nondet_u32();
  verif_assume(np >= 1 && np <= (1u << 22));
  in.set_num_points(np);
  Mesh::Face f;
  for (int k = 0; k < 3; ++k) { uint32_t v = nondet_u32(); verif_assume(v < np); f[k] = PointIndex(v); }
  in.AddFace(f);
  EncoderBuffer eb; eb.buffer()->reserve(24);
  MeshSequentialEncoder enc;
  enc.point_cloud_ = &in; enc.mesh_ = &in; enc.buffer_ = &eb;
  EncoderOptions opt;     // empty option set: compress_connectivity is not set => raw index path
  enc.options_ = &opt;
  const Status st = enc.MeshSequentialEncoder::EncodeConnectivity();
  verif_assert(st.ok(), "encoder reports success");
  DecoderBuffer db; db.Init(eb.data(), eb.size(), DRACO_BITSTREAM_VERSION(2, 2));
  Mesh out;
  MeshSequentialDecoder dec;
  dec.buffer_ = &db; dec.point_cloud_ = &out; dec.mesh_ = &out; dec.version_major_ = 2; dec.version_minor_ = 2;
  const bool ok = dec.MeshSequentialDecoder::DecodeConnectivity();
  verif_assert(ok, "encoder reported success => connectivity decodes");
  if (ok) {
    verif_assert(out.num_points() == np && out.num_faces() == 1, "same number of points and faces");
    for (int k = 0; k < 3; ++k) verif_assert(out.face(FaceIndex(0))[k] == f[k], "face indices survive");
    verif_assert(db.remaining_size() == 0, "decoder consumes exactly what the encoder wrote");
  }
  verif_reach();
}
