// C01.seq_int_raw_rt: integer attribute values coded WITHOUT the built-in entropy coder
// (use_built_in_attribute_compression = false): the real SequentialIntegerAttributeEncoder::EncodeValues writes each
// zig-zag symbol with the smallest number of bytes that holds the largest symbol, the real
// SequentialIntegerAttributeDecoder::DecodeIntegerValues reads them back.  For ANY int32 values the decoder accepts the
// stream, consumes it exactly and returns the values.
#include "verif.h"
#include "verif_vecmodel.h"
#include "draco/compression/config/encoder_options.h"
namespace draco {   // the option store (std::map<std::string,...>) is not the subject: built-in compression is OFF
template <> bool DracoOptions<int>::GetGlobalBool(const std::string &, bool) const { return false; }
}  // namespace draco
#include "draco/compression/attributes/sequential_integer_attribute_encoder.cc"
#include "draco/compression/attributes/sequential_integer_attribute_decoder.cc"
#include "draco/compression/attributes/sequential_attribute_encoder.cc"
#include "draco/compression/attributes/sequential_attribute_decoder.cc"
#include "draco/compression/point_cloud/point_cloud_encoder.cc"
#include "draco/compression/point_cloud/point_cloud_decoder.cc"
#include "draco/core/bit_utils.cc"
#include "draco/core/decoder_buffer.cc"
#include "draco/core/encoder_buffer.cc"
#include "draco/core/data_buffer.cc"
#include "draco/core/draco_types.cc"
#include "draco/core/status.cc"
#include "draco/attributes/geometry_attribute.cc"
#include "draco/attributes/point_attribute.cc"
#include "draco/point_cloud/point_cloud.cc"
#include <string.h>
using namespace draco;
struct BareEncoder : public PointCloudEncoder {
  uint8_t GetEncodingMethod() const override { return 0; }
  bool GenerateAttributesEncoder(int32_t) override { return false; }
  Status EncodeGeometryData() override { return OkStatus(); }
  void ComputeNumberOfEncodedPoints() override {}
};
struct BareDecoder : public PointCloudDecoder { bool CreateAttributesDecoder(int32_t) override { return false; } };
#ifndef NENT
#define NENT 2
#endif
extern "C" void h_seq_int_raw_rt(void) {
  // the attribute (INT32, 1 component, NENT values) and the encoder's portable copy of it
  int32_t v[NENT]; for (int i = 0; i < NENT; ++i) v[i] = nondet_i32();
  uint8_t abytes[4 * NENT], pbytes[4 * NENT]; memcpy(abytes, v, sizeof(v)); memcpy(pbytes, v, sizeof(v));
  PointAttribute att, port; DataBuffer adb, pdb;
  verif_adopt(adb.data_, abytes, sizeof(abytes), sizeof(abytes)); verif_adopt(pdb.data_, pbytes, sizeof(pbytes), sizeof(pbytes));
  att.GeometryAttribute::Init(GeometryAttribute::GENERIC, &adb, 1, DT_INT32, false, 4, 0);
  att.attribute_buffer_.reset(&adb); att.identity_mapping_ = true; att.num_unique_entries_ = NENT; att.unique_id_ = 5;
  port.GeometryAttribute::Init(GeometryAttribute::GENERIC, &pdb, 1, DT_INT32, false, 4, 0);
  port.attribute_buffer_.reset(&pdb); port.identity_mapping_ = true; port.num_unique_entries_ = NENT;
  PointIndex ids_s[NENT]; for (int i = 0; i < NENT; ++i) ids_s[i] = PointIndex(i);
  std::vector<PointIndex> ids; verif_adopt(ids, ids_s, NENT, NENT);
  EncoderOptions eopt = EncoderOptions::CreateEmptyOptions();
  BareEncoder pce; pce.options_ = &eopt;
  SequentialIntegerAttributeEncoder enc;
  enc.encoder_ = &pce; enc.attribute_ = &att; enc.attribute_id_ = 0;
  enc.portable_attribute_.reset(&port);
  EncoderBuffer eb; eb.buffer()->reserve(4 + 4 * NENT);
  const bool eok = enc.EncodeValues(ids, &eb);
  verif_assert(eok, "encoder succeeds");
  verif_observe(eb.size());
  // decoder side
  uint8_t obytes[4 * NENT]; for (unsigned i = 0; i < sizeof(obytes); ++i) obytes[i] = 0;
  PointAttribute oatt; DataBuffer odb; verif_adopt(odb.data_, obytes, sizeof(obytes), sizeof(obytes));
  oatt.GeometryAttribute::Init(GeometryAttribute::GENERIC, &odb, 1, DT_INT32, false, 4, 0);
  oatt.attribute_buffer_.reset(&odb); oatt.identity_mapping_ = true; oatt.num_unique_entries_ = NENT; oatt.unique_id_ = 5;
  DecoderBuffer db; db.Init(eb.data(), eb.size(), DRACO_BITSTREAM_VERSION(2, 2));
  BareDecoder pcd; pcd.version_major_ = 2; pcd.version_minor_ = 2; pcd.buffer_ = &db;
  SequentialIntegerAttributeDecoder dec; dec.decoder_ = &pcd; dec.attribute_ = &oatt; dec.attribute_id_ = 0;
  // DecodeValues = read the prediction method byte, then DecodeIntegerValues (its legacy < 2.0 tail is not the subject)
  int8_t method = 0; verif_assert(db.Decode(&method) && method == PREDICTION_NONE, "no prediction scheme announced");
  const bool dok = dec.DecodeIntegerValues(ids, &db);
  verif_assert(dok, "what the encoder wrote, the decoder accepts");
  verif_assert(db.remaining_size() == 0, "the decoder consumes exactly what the encoder wrote");
  if (dok) {
    const PointAttribute *p = dec.portable_attribute_.get();
    verif_assert(p != nullptr && p->size() == NENT, "portable attribute with NENT entries");
    if (p != nullptr && p->size() == NENT)
      for (int i = 0; i < NENT; ++i) { int32_t g; memcpy(&g, p->buffer()->data() + 4 * i, 4); verif_assert(g == v[i], "raw-coded integer value survives the round trip"); }
  }
  enc.portable_attribute_.release(); att.attribute_buffer_.release(); port.attribute_buffer_.release(); oatt.attribute_buffer_.release();
  verif_release(adb.data_); verif_release(pdb.data_); verif_release(odb.data_); verif_release(ids);
  verif_reach();
}
