// C01: value-coding layer: zig-zag arrays, delta predictor round trip, parallelogram predictor lemmas.
#include "verif.h"
#include "verif_vecmodel.h"
#include "draco/core/bit_utils.cc"
#include "draco/core/decoder_buffer.cc"
#include "draco/core/encoder_buffer.cc"
#include "draco/attributes/geometry_indices.h"
#include "draco/compression/attributes/prediction_schemes/mesh_prediction_scheme_multi_parallelogram_decoder.h"
#include "draco/compression/attributes/prediction_schemes/mesh_prediction_scheme_multi_parallelogram_encoder.h"
#include "draco/compression/attributes/prediction_schemes/mesh_prediction_scheme_parallelogram_decoder.h"
#include "draco/compression/attributes/prediction_schemes/mesh_prediction_scheme_parallelogram_encoder.h"
#include "draco/compression/attributes/prediction_schemes/mesh_prediction_scheme_parallelogram_shared.h"
#include "draco/compression/attributes/prediction_schemes/prediction_scheme_delta_decoder.h"
#include "draco/compression/attributes/prediction_schemes/prediction_scheme_delta_encoder.h"
#include "draco/compression/attributes/prediction_schemes/prediction_scheme_wrap_decoding_transform.h"
#include "draco/compression/attributes/prediction_schemes/prediction_scheme_wrap_encoding_transform.h"
using namespace draco;

#ifndef NE
#define NE 3
#endif
#ifndef NCOMP
#define NCOMP 1
#endif
#ifndef DATA_BITS
#define DATA_BITS 29
#endif

extern "C" void h_zigzag_arr(void) {
  int32_t in[NE]; uint32_t sym[NE]; int32_t out[NE];
  int n = nondet_i32(); verif_assume(n >= 0 && n <= NE);
  for (int i = 0; i < NE; ++i) in[i] = nondet_i32();
  ConvertSignedIntsToSymbols(in, n, sym);
  ConvertSymbolsToSignedInts(sym, n, out);
  for (int i = 0; i < NE; ++i) if (i < n) verif_assert(out[i] == in[i], "array zig-zag round trip");
  verif_reach();
}

typedef PredictionSchemeWrapEncodingTransform<int32_t> WE;
typedef PredictionSchemeWrapDecodingTransform<int32_t> WD;

// ---- delta predictor: encoder -> (transform data through the stream) -> decoder.
// "The encoder reports success" = ComputeCorrectionValues and EncodePredictionData (EncodeTransformData) both succeed,
// which is what SequentialIntegerAttributeEncoder::EncodeValues requires.
extern "C" void h_delta_rt(void) {
  int32_t data[NE * NCOMP], corr[NE * NCOMP], out[NE * NCOMP];
  for (int i = 0; i < NE * NCOMP; ++i) {
    data[i] = nondet_i32();
#ifdef DELTA_DATA_BITS
    verif_assume(data[i] >= -(1 << DELTA_DATA_BITS) && data[i] < (1 << DELTA_DATA_BITS));
#endif
  }
  PredictionSchemeDeltaEncoder<int32_t, WE> enc(nullptr);
  bool eok = enc.ComputeCorrectionValues(data, corr, NE * NCOMP, NCOMP, nullptr);
  EncoderBuffer eb; eb.buffer()->reserve(8);
  eok = eok && enc.EncodePredictionData(&eb);
  verif_observe(eok);
  if (eok) {
    PredictionSchemeDeltaDecoder<int32_t, WD> dec(nullptr);
    DecoderBuffer db; db.Init(eb.data(), eb.size());
    const bool tok = dec.DecodePredictionData(&db);
    verif_assert(tok, "encoder reported success => decoder accepts the transform data");
    verif_assert(!tok || db.remaining_size() == 0, "transform data consumed exactly");
    if (tok) {
      const bool dok = dec.ComputeOriginalValues(corr, out, NE * NCOMP, NCOMP, nullptr);
      verif_assert(dok, "decoder succeeds");
      for (int i = 0; i < NE * NCOMP; ++i) {
        verif_observe((uint32_t)corr[i]);
        verif_assert(out[i] == data[i], "delta predictor + wrap transform round trip returns the input");
      }
    }
  } else {
    // failure is only allowed when the value range does not fit the transform
    int64_t mn = data[0], mx = data[0];
    for (int i = 1; i < NE * NCOMP; ++i) { if (data[i] < mn) mn = data[i]; if (data[i] > mx) mx = data[i]; }
    verif_assert(mx - mn >= 0x7fffffffLL, "encoder only refuses ranges with max-min >= 2^31-1");
  }
  verif_reach();
}

// ---- light array-backed table type: the predictor templates are generic over the corner table
#define NC 6
struct LiteTable {
  uint32_t c2v[NC]; uint32_t opp[NC];
  CornerIndex Opposite(CornerIndex c) const { return c == kInvalidCornerIndex ? c : CornerIndex(opp[c.value()]); }
  CornerIndex Next(CornerIndex c) const { return c == kInvalidCornerIndex ? c : ((c.value() % 3) == 2 ? c - 2 : c + 1); }
  CornerIndex Previous(CornerIndex c) const { return c == kInvalidCornerIndex ? c : ((c.value() % 3) == 0 ? c + 2 : c - 1); }
  VertexIndex Vertex(CornerIndex c) const { return c == kInvalidCornerIndex ? kInvalidVertexIndex : VertexIndex(c2v[c.value()]); }
  CornerIndex SwingRight(CornerIndex c) const { return Previous(Opposite(Previous(c))); }
  CornerIndex SwingLeft(CornerIndex c) const { return Next(Opposite(Next(c))); }
};
struct LiteMD {
  typedef LiteTable CornerTable;
  const LiteTable *t; const std::vector<int32_t> *v2d; const std::vector<CornerIndex> *d2c;
  const LiteTable *corner_table() const { return t; }
  const std::vector<int32_t> *vertex_to_data_map() const { return v2d; }
  const std::vector<CornerIndex> *data_to_corner_map() const { return d2c; }
  bool IsInitialized() const { return true; }
};
static void any_table(LiteTable *ct, int32_t *v2d, int nv2d) {
  for (int c = 0; c < NC; ++c) {
    uint32_t v = nondet_u32(); verif_assume(v < (uint32_t)nv2d); ct->c2v[c] = v;
    uint32_t o = nondet_u32(); verif_assume(o < NC || o == kInvalidCornerIndex.value()); ct->opp[c] = o;
  }
  // every vertex referenced by a corner has been given a data id by the traversal (ids are assigned to all vertices of
  // all faces before prediction starts) -- assumption about the sequencer, outside this obligation
  for (int i = 0; i < nv2d; ++i) { int32_t d = nondet_i32(); verif_assume(d >= 0 && d < nv2d); v2d[i] = d; }
}

// recompute lemma: the prediction for entry p depends only on entries < p (all the decoder has at that point)
extern "C" void h_pgram_recompute(void) {
  LiteTable ct; int32_t v2d_s[NE]; std::vector<int32_t> v2d;
  any_table(&ct, v2d_s, NE);
  verif_adopt(v2d, v2d_s, NE, NE);
  int p = nondet_i32(); verif_assume(p >= 0 && p < NE);
  uint32_t ci = nondet_u32(); verif_assume(ci < NC);
  int32_t a[NE * NCOMP], b[NE * NCOMP];
  for (int i = 0; i < NE * NCOMP; ++i) { a[i] = nondet_i32(); b[i] = nondet_i32(); if (i < p * NCOMP) verif_assume(a[i] == b[i]); }
  int32_t pa[NCOMP], pb[NCOMP];
  for (int c = 0; c < NCOMP; ++c) pa[c] = pb[c] = 0;
  const bool ra = ComputeParallelogramPrediction(p, CornerIndex(ci), &ct, v2d, a, NCOMP, pa);
  const bool rb = ComputeParallelogramPrediction(p, CornerIndex(ci), &ct, v2d, b, NCOMP, pb);
  verif_assert(ra == rb, "availability of the parallelogram depends only on the table and the entry index");
  for (int c = 0; c < NCOMP; ++c) verif_assert(!ra || pa[c] == pb[c], "prediction depends only on already coded entries (< p)");
  verif_release(v2d);
  verif_reach();
}

// monolithic round trip: real encoder loop -> real decoder loop over an ARBITRARY in-range table
extern "C" void h_pgram_rt(void) {
  LiteTable ct; int32_t v2d_s[NE]; std::vector<int32_t> v2d; CornerIndex d2c_s[NE]; std::vector<CornerIndex> d2c;
  any_table(&ct, v2d_s, NE);
  for (int i = 0; i < NE; ++i) { uint32_t c = nondet_u32(); verif_assume(c < NC); d2c_s[i] = CornerIndex(c); }
  verif_adopt(v2d, v2d_s, NE, NE); verif_adopt(d2c, d2c_s, NE, NE);
  LiteMD md{&ct, &v2d, &d2c};
  int32_t data[NE * NCOMP], corr[NE * NCOMP], out[NE * NCOMP];
  for (int i = 0; i < NE * NCOMP; ++i) {
    data[i] = nondet_i32();
    verif_assume(data[i] >= -(1 << DATA_BITS) && data[i] < (1 << DATA_BITS));   // quantized attribute range
  }
  WE et;
  MeshPredictionSchemeParallelogramEncoder<int32_t, WE, LiteMD> enc(nullptr, et, md);
  const bool ok = enc.MeshPredictionSchemeParallelogramEncoder::ComputeCorrectionValues(data, corr, NE * NCOMP, NCOMP, nullptr);
  verif_assert(ok, "encoder succeeds");
  WD dt;
  dt.set_min_value(enc.transform().min_value()); dt.set_max_value(enc.transform().max_value());
  verif_assert(dt.InitCorrectionBounds(), "decoder accepts the bounds");
  MeshPredictionSchemeParallelogramDecoder<int32_t, WD, LiteMD> dec(nullptr, dt, md);
  const bool ok3 = dec.MeshPredictionSchemeParallelogramDecoder::ComputeOriginalValues(corr, out, NE * NCOMP, NCOMP, nullptr);
  verif_assert(ok3, "decoder succeeds");
  for (int i = 0; i < NE * NCOMP; ++i) verif_assert(out[i] == data[i], "parallelogram predictor round trip returns the input");
  verif_release(v2d); verif_release(d2c);
  verif_reach();
}

// multi-parallelogram predictor: real encoder loop -> real decoder loop, arbitrary in-range table with a symmetric
// opposite pairing (fan walks terminate), values in the quantized range
extern "C" void h_multi_rt(void) {
  LiteTable ct; int32_t v2d_s[NE]; std::vector<int32_t> v2d; CornerIndex d2c_s[NE]; std::vector<CornerIndex> d2c;
  any_table(&ct, v2d_s, NE);
  for (int c = 0; c < NC; ++c)
    if (ct.opp[c] != kInvalidCornerIndex.value()) verif_assume(ct.opp[ct.opp[c]] == (uint32_t)c && ct.opp[c] / 3 != (uint32_t)c / 3);
  for (int i = 0; i < NE; ++i) { uint32_t c = nondet_u32(); verif_assume(c < NC); d2c_s[i] = CornerIndex(c); }
  verif_adopt(v2d, v2d_s, NE, NE); verif_adopt(d2c, d2c_s, NE, NE);
  LiteMD md{&ct, &v2d, &d2c};
  int32_t data[NE * NCOMP], corr[NE * NCOMP], out[NE * NCOMP];
  for (int i = 0; i < NE * NCOMP; ++i) { data[i] = nondet_i32(); verif_assume(data[i] >= -(1 << DATA_BITS) && data[i] < (1 << DATA_BITS)); }
  WE et;
  MeshPredictionSchemeMultiParallelogramEncoder<int32_t, WE, LiteMD> enc(nullptr, et, md);
  verif_assert(enc.MeshPredictionSchemeMultiParallelogramEncoder::ComputeCorrectionValues(data, corr, NE * NCOMP, NCOMP, nullptr), "encoder succeeds");
  WD dt; dt.set_min_value(enc.transform().min_value()); dt.set_max_value(enc.transform().max_value());
  verif_assert(dt.InitCorrectionBounds(), "decoder accepts the bounds");
  MeshPredictionSchemeMultiParallelogramDecoder<int32_t, WD, LiteMD> dec(nullptr, dt, md);
  verif_assert(dec.MeshPredictionSchemeMultiParallelogramDecoder::ComputeOriginalValues(corr, out, NE * NCOMP, NCOMP, nullptr), "decoder succeeds");
  for (int i = 0; i < NE * NCOMP; ++i) verif_assert(out[i] == data[i], "multi-parallelogram predictor round trip returns the input");
  verif_release(v2d); verif_release(d2c);
  verif_reach();
}
