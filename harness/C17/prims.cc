// C17: varint / zigzag / byte-aligned scalar primitives round-trip every value.
#include "verif.h"
#include "draco/core/bit_utils.h"
#include "draco/core/bit_utils.cc"
#include "draco/core/decoder_buffer.cc"
#include "draco/core/encoder_buffer.cc"
#include "draco/core/varint_decoding.h"
#include "draco/core/varint_encoding.h"
#include <string.h>
using namespace draco;

template <typename S>
static void zigzag() {
  typedef typename std::make_unsigned<S>::type U;
  U raw = (U)nondet_u64();
  S v; memcpy(&v, &raw, sizeof v);
  U sym = ConvertSignedIntToSymbol(v);
  S back = ConvertSymbolToSignedInt(sym);
  verif_observe((uint64_t)sym);
  verif_assert(back == v, "zigzag: symbol->signed(signed->symbol(v)) == v");
  // other direction: every symbol is the image of the value it decodes to
  U s2 = (U)nondet_u64();
  S d2 = ConvertSymbolToSignedInt(s2);
  U e2 = ConvertSignedIntToSymbol(d2);
  verif_assert(e2 == s2, "zigzag: signed->symbol(symbol->signed(s)) == s");
  verif_reach();
}
extern "C" void h_zigzag8(void) { zigzag<int8_t>(); }
extern "C" void h_zigzag16(void) { zigzag<int16_t>(); }
extern "C" void h_zigzag32(void) { zigzag<int32_t>(); }
extern "C" void h_zigzag64(void) { zigzag<int64_t>(); }

template <typename T>
static void varint_rt() {
  EncoderBuffer eb;
  eb.buffer()->reserve(16);  // one allocation; growth of the vector is exercised by C17.varint_grow
  uint64_t raw = nondet_u64();
  T v; memcpy(&v, &raw, sizeof v);
  const uint8_t trailer = nondet_u8();
  bool eok = EncodeVarint(v, &eb);
  verif_assert(eok, "EncodeVarint succeeds");
  const size_t len = eb.size();
  verif_assert(len >= 1 && len <= (sizeof(T) * 8 + 6) / 7, "encoded length between 1 and ceil(bits/7)");
  eb.Encode(trailer);
  DecoderBuffer db;
  db.Init(eb.data(), eb.size());
  T w;
  bool ok = DecodeVarint(&w, &db);
  verif_assert(ok, "DecodeVarint accepts what EncodeVarint wrote");
  verif_assert(w == v, "varint round trip returns the value");
  verif_assert((size_t)db.decoded_size() == len, "decoder consumes exactly the bytes the encoder produced");
  uint8_t t2 = 0;
  verif_assert(db.Decode(&t2) && t2 == trailer, "value following the varint is found at the right position");
  verif_observe((uint64_t)len);
  verif_reach();
}
extern "C" void h_varint_u8(void) { varint_rt<uint8_t>(); }
extern "C" void h_varint_u16(void) { varint_rt<uint16_t>(); }
extern "C" void h_varint_u32(void) { varint_rt<uint32_t>(); }
extern "C" void h_varint_u64(void) { varint_rt<uint64_t>(); }
extern "C" void h_varint_i32(void) { varint_rt<int32_t>(); }
extern "C" void h_varint_i64(void) { varint_rt<int64_t>(); }

// same through the growing std::vector of the real EncoderBuffer (no reserve)
extern "C" void h_varint_grow_u32(void) {
  EncoderBuffer eb;
  uint32_t v = nondet_u32();
  EncodeVarint(v, &eb);
  DecoderBuffer db;
  db.Init(eb.data(), eb.size());
  uint32_t w;
  bool ok = DecodeVarint(&w, &db);
  verif_assert(ok && w == v, "varint u32 round trip through a growing buffer");
  verif_assert(db.remaining_size() == 0, "consumed everything");
  verif_reach();
}

template <typename T>
static void scalar_rt() {
  EncoderBuffer eb;
  eb.buffer()->reserve(16);
  uint64_t raw = nondet_u64(), raw2 = nondet_u64();
  T v, v2; memcpy(&v, &raw, sizeof v); memcpy(&v2, &raw2, sizeof v2);
  verif_assert(eb.Encode(v) && eb.Encode(v2), "Encode<T> succeeds outside bit mode");
  verif_assert(eb.size() == 2 * sizeof(T), "Encode<T> writes sizeof(T) bytes");
  DecoderBuffer db;
  db.Init(eb.data(), eb.size());
  T p, w, w2;
  verif_assert(db.Peek(&p) && memcmp(&p, &v, sizeof v) == 0 && db.decoded_size() == 0, "Peek returns the value and does not advance");
  verif_assert(db.Decode(&w) && db.Decode(&w2), "Decode<T> accepts");
  verif_assert(memcmp(&w, &v, sizeof v) == 0 && memcmp(&w2, &v2, sizeof v) == 0, "byte-aligned scalar round trip is bit exact");
  verif_assert(db.remaining_size() == 0, "exact consumption");
  T extra;
  verif_assert(!db.Decode(&extra) && !db.Peek(&extra), "reading past the end fails");
  verif_reach();
}
extern "C" void h_scalar_u8(void) { scalar_rt<uint8_t>(); }
extern "C" void h_scalar_u16(void) { scalar_rt<uint16_t>(); }
extern "C" void h_scalar_u32(void) { scalar_rt<uint32_t>(); }
extern "C" void h_scalar_u64(void) { scalar_rt<uint64_t>(); }
extern "C" void h_scalar_i32(void) { scalar_rt<int32_t>(); }
extern "C" void h_scalar_float(void) { scalar_rt<float>(); }
extern "C" void h_scalar_double(void) { scalar_rt<double>(); }
