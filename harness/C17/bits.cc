// C17: bit-level writer/reader pairs.
#include "verif.h"
#include "draco/core/bit_utils.cc"
#include "draco/core/decoder_buffer.cc"
#include "draco/core/encoder_buffer.cc"
#include "draco/core/divide.cc"
#include "draco/compression/entropy/ans.h"
#include "draco/compression/bit_coders/direct_bit_decoder.h"
#include "draco/compression/bit_coders/direct_bit_decoder.cc"
#include "draco/compression/bit_coders/direct_bit_encoder.h"
#include "draco/compression/bit_coders/direct_bit_encoder.cc"
#include "draco/compression/bit_coders/rans_bit_decoder.h"
#include "draco/compression/bit_coders/rans_bit_decoder.cc"
#include "draco/compression/bit_coders/rans_bit_encoder.h"
#include "draco/compression/bit_coders/rans_bit_encoder.cc"
using namespace draco;

#ifndef W1
#define W1 7
#endif
#ifndef W2
#define W2 32
#endif
static inline uint32_t maskw(uint32_t v, int w) { return w >= 32 ? v : (v & ((1u << w) - 1u)); }

// ---- EncoderBuffer bit region <-> DecoderBuffer bit region, followed by a byte-mode value
extern "C" void h_bits_rt(void) {
  EncoderBuffer eb;
  const uint8_t head = nondet_u8();
  eb.Encode(head);
  const bool with_size = nondet_bool();
  const uint32_t v1 = nondet_u32(), v2 = nondet_u32();
  verif_assert(eb.StartBitEncoding(W1 + W2, with_size), "StartBitEncoding");
  verif_assert(!eb.Encode(head), "byte-mode Encode is refused inside a bit region");
  verif_assert(eb.EncodeLeastSignificantBits32(W1, v1) && eb.EncodeLeastSignificantBits32(W2, v2), "bit writes accepted");
  eb.EndBitEncoding();
  const uint64_t nbytes = (W1 + W2 + 7) / 8;
  verif_assert(eb.size() == 1 + (with_size ? 1 : 0) + nbytes, "region occupies [varint size +] ceil(bits/8) bytes");
  const uint32_t tail = nondet_u32();
  verif_assert(eb.Encode(tail), "byte mode resumes after the region");
  DecoderBuffer db; db.Init(eb.data(), eb.size(), DRACO_BITSTREAM_VERSION(2, 2));
  uint8_t h2 = 0; uint64_t sz = 0; uint32_t r1 = 0, r2 = 0, t2 = 0;
  verif_assert(db.Decode(&h2) && h2 == head, "leading byte");
  verif_assert(db.StartBitDecoding(with_size, &sz), "StartBitDecoding");
  verif_assert(!with_size || sz == nbytes, "stored size = ceil(bits/8)");
  verif_assert(db.DecodeLeastSignificantBits32(W1, &r1) && db.DecodeLeastSignificantBits32(W2, &r2), "bit reads accepted");
  verif_assert(r1 == maskw(v1, W1) && r2 == maskw(v2, W2), "bit fields round trip (least significant W bits)");
  db.EndBitDecoding();
  verif_assert(db.Decode(&t2) && t2 == tail && db.remaining_size() == 0, "value following the bit region is found at the right position");
  verif_reach();
}

// reading past the written bits: zeros, never outside the buffer
extern "C" void h_bits_past(void) {
  char buf[4]; verif_fill(buf, 4);
  uint32_t n = nondet_u32(); verif_assume(n <= 4);
  DecoderBuffer db; db.Init(buf, n, DRACO_BITSTREAM_VERSION(2, 2));
  uint64_t sz;
  verif_assert(db.StartBitDecoding(false, &sz), "start");
  uint32_t a = 0, b = 0xffffffffu, c = 0xffffffffu;
  verif_assert(db.DecodeLeastSignificantBits32(32, &a), "first 32 bits");
  verif_assert(db.DecodeLeastSignificantBits32(32, &b) && b == 0, "bits past the end read as zero");
  verif_assert(db.DecodeLeastSignificantBits32(nondet_u8() & 31, &c) && c == 0, "still zero");
  db.EndBitDecoding();
  verif_assert(db.decoded_size() <= (int64_t)n, "position never passes the end of the buffer");
  verif_reach();
}

// ---- direct bit coder end to end: NF fields of symbolic width
#ifndef NF
#define NF 2
#endif
extern "C" void h_direct_rt(void) {
  DirectBitEncoder enc;
  enc.StartEncoding();
  uint32_t vals[NF]; int w[NF];
  for (int i = 0; i < NF; ++i) {
    w[i] = nondet_i32(); verif_assume(w[i] >= 1 && w[i] <= 32);
    vals[i] = maskw(nondet_u32(), w[i]);
    enc.EncodeLeastSignificantBits32(w[i], vals[i]);
  }
  const bool b = nondet_bool();
  enc.EncodeBit(b);
  EncoderBuffer eb; eb.buffer()->reserve(24);
  enc.EndEncoding(&eb);
  const uint8_t tail = nondet_u8(); eb.Encode(tail);
  DecoderBuffer db; db.Init(eb.data(), eb.size());
  DirectBitDecoder dec;
  verif_assert(dec.StartDecoding(&db), "decoder accepts");
  for (int i = 0; i < NF; ++i) {
    uint32_t r = 0;
    verif_assert(dec.DecodeLeastSignificantBits32(w[i], &r), "field available");
    verif_assert(r == vals[i], "direct bit coder field round trip");
  }
  verif_assert(dec.DecodeNextBit() == b, "single bit round trip");
  dec.EndDecoding();
  uint8_t t2 = 0;
  verif_assert(db.Decode(&t2) && t2 == tail && db.remaining_size() == 0, "decoder consumed exactly the coder's bytes");
  verif_reach();
}

// ---- rABS one step from an arbitrary normalised state (inductive step for bit sequences of any length)
extern "C" void h_rabs_step(void) {
  AnsCoder c; uint8_t buf[4];
  uint32_t x = nondet_u32();
  verif_assume(x >= 4096u && x < 4096u * 256u);
  c.buf = buf; c.buf_offset = 0; c.state = x;
  uint8_t p0 = nondet_u8(); verif_assume(p0 >= 1);
#ifdef P0C
  verif_assume(p0 == P0C);
#endif
  const int bit = nondet_bool();
  rabs_desc_write(&c, bit, p0);
  verif_assert(c.state >= 4096u && c.state < 4096u * 256u, "encoder state stays normalised");
  verif_assert(c.buf_offset >= 0 && c.buf_offset <= 1, "at most one byte emitted per bit");
  AnsDecoder d; d.buf = buf; d.buf_offset = c.buf_offset; d.state = c.state;
  const int got = rabs_desc_read(&d, p0);
  verif_assert(got == bit, "rABS bit round trip");
  uint32_t y = d.state; int o = d.buf_offset;
  if (y < 4096u && o > 0) y = y * 256 + buf[--o];     // renormalisation done by the next read
  verif_assert(y == x && o == 0, "decoder returns to the pre-encode state");
  verif_reach();
}

// fastdiv table == division
extern "C" void h_fastdiv(void) {
  uint32_t x = nondet_u32(), y = nondet_u32();
  verif_assume(x < (1u << 20) && y >= 1 && y <= 255);
  verif_assert(fastdiv(x, y) == x / y, "fastdiv(x,y) == x / y");
  verif_reach();
}

// ---- rANS bit coder end to end, NB single bits
#ifndef NBITS
#define NBITS 2
#endif
extern "C" void h_rbit_rt(void) {
  RAnsBitEncoder enc;
  enc.StartEncoding();
  bool bits[NBITS];
  for (int i = 0; i < NBITS; ++i) { bits[i] = nondet_bool(); enc.EncodeBit(bits[i]); }
  EncoderBuffer eb; eb.buffer()->reserve(16);
  enc.EndEncoding(&eb);
  const uint8_t tail = nondet_u8(); eb.Encode(tail);
  DecoderBuffer db; db.Init(eb.data(), eb.size(), DRACO_BITSTREAM_VERSION(2, 2));
  RAnsBitDecoder dec;
  verif_assert(dec.StartDecoding(&db), "decoder accepts");
  for (int i = 0; i < NBITS; ++i) verif_assert(dec.DecodeNextBit() == bits[i], "rANS bit coder round trip");
  dec.EndDecoding();
  uint8_t t2 = 0;
  verif_assert(db.Decode(&t2) && t2 == tail && db.remaining_size() == 0, "exact consumption");
  verif_reach();
}

// ---- two bit regions on the SAME EncoderBuffer (all four size-flag combinations, optional Clear() in between):
// interleavings of bit-mode and byte-mode writes must stay independent of the buffer's history
extern "C" void h_bits_two_seq(void) {
  EncoderBuffer eb;
  const bool s1 = nondet_bool(), s2 = nondet_bool(), clear_between = nondet_bool();
  const uint32_t a = nondet_u32(), b = nondet_u32();
  const uint64_t head = nondet_u64();
  eb.Encode(head);
  verif_assert(eb.StartBitEncoding(W1, s1) && eb.EncodeLeastSignificantBits32(W1, a), "first region");
  eb.EndBitEncoding();
  size_t base = eb.size();
  if (clear_between) { eb.Clear(); eb.Encode(head); base = 8; }
  const uint8_t mid = nondet_u8();
  eb.Encode(mid);
  verif_assert(eb.StartBitEncoding(W2, s2) && eb.EncodeLeastSignificantBits32(W2, b), "second region");
  eb.EndBitEncoding();
  const uint8_t tail = nondet_u8();
  eb.Encode(tail);
  verif_assert(eb.size() == base + 1 + (s2 ? 1 : 0) + (W2 + 7) / 8 + 1, "second region occupies [size byte +] ceil(bits/8) bytes regardless of the first one");
  DecoderBuffer db; db.Init(eb.data(), eb.size(), DRACO_BITSTREAM_VERSION(2, 2));
  uint64_t h2 = 0, sz = 0; uint32_t r = 0; uint8_t m2 = 0, t2 = 0;
  verif_assert(db.Decode(&h2) && h2 == head, "header");
  if (!clear_between) {
    verif_assert(db.StartBitDecoding(s1, &sz) && db.DecodeLeastSignificantBits32(W1, &r) && r == maskw(a, W1), "first region round trip");
    db.EndBitDecoding();
  }
  verif_assert(db.Decode(&m2) && m2 == mid, "byte between the regions");
  verif_assert(db.StartBitDecoding(s2, &sz) && db.DecodeLeastSignificantBits32(W2, &r) && r == maskw(b, W2), "second region round trip");
  db.EndBitDecoding();
  verif_assert(db.Decode(&t2) && t2 == tail && db.remaining_size() == 0, "trailing byte found, exact consumption");
  verif_reach();
}
