// C17: adaptive rANS bit coder and folded-integer coder.
#include "verif.h"
#include "verif_vecmodel.h"
#include <array>
#include "draco/core/bit_utils.cc"
#include "draco/core/decoder_buffer.cc"
#include "draco/core/encoder_buffer.cc"
#include "draco/core/divide.cc"
#include "draco/compression/bit_coders/adaptive_rans_bit_decoder.h"
#include "draco/compression/bit_coders/adaptive_rans_bit_decoder.cc"
#include "draco/compression/bit_coders/adaptive_rans_bit_encoder.h"
#include "draco/compression/bit_coders/adaptive_rans_bit_encoder.cc"
#include "draco/compression/bit_coders/direct_bit_decoder.h"
#include "draco/compression/bit_coders/direct_bit_decoder.cc"
#include "draco/compression/bit_coders/direct_bit_encoder.h"
#include "draco/compression/bit_coders/direct_bit_encoder.cc"
#include "draco/compression/bit_coders/folded_integer_bit_decoder.h"
#include "draco/compression/bit_coders/folded_integer_bit_encoder.h"
using namespace draco;
#ifndef NBITS
#define NBITS 3
#endif

extern "C" void h_clamp(void) {
  double p = nondet_double();
  verif_assume(p >= 0.0 && p <= 1.0);
  const uint8_t c = clamp_probability(p);
  verif_assert(c >= 1, "clamped probability is in [1,255]");
  const bool bit = nondet_bool();
  const double q = update_probability(p, bit);
  verif_assert(q >= 0.0 && q <= 1.0, "updated probability stays in [0,1]");
  verif_reach();
}

extern "C" void h_adaptive_rt(void) {
  AdaptiveRAnsBitEncoder enc;
  enc.StartEncoding();
  bool bits[NBITS];
  for (int i = 0; i < NBITS; ++i) { bits[i] = nondet_bool(); enc.EncodeBit(bits[i]); }
  EncoderBuffer eb; eb.buffer()->reserve(16);
  enc.EndEncoding(&eb);
  const uint8_t tail = nondet_u8(); eb.Encode(tail);
  DecoderBuffer db; db.Init(eb.data(), eb.size());
  AdaptiveRAnsBitDecoder dec;
  verif_assert(dec.StartDecoding(&db), "decoder accepts");
  for (int i = 0; i < NBITS; ++i) verif_assert(dec.DecodeNextBit() == bits[i], "adaptive rANS bit coder round trip");
  dec.EndDecoding();
  uint8_t t2 = 0;
  verif_assert(db.Decode(&t2) && t2 == tail && db.remaining_size() == 0, "exact consumption");
  verif_reach();
}

extern "C" void h_folded_rt(void) {
  FoldedBit32Encoder<DirectBitEncoder> enc;
  enc.StartEncoding();
  const int w = 1 + (nondet_u8() & 31);
  uint32_t v = nondet_u32(); if (w < 32) v &= (1u << w) - 1;
  enc.EncodeLeastSignificantBits32(w, v);
  const bool b = nondet_bool(); enc.EncodeBit(b);
  EncoderBuffer eb; eb.buffer()->reserve(272);
  enc.EndEncoding(&eb);
  DecoderBuffer db; db.Init(eb.data(), eb.size());
  FoldedBit32Decoder<DirectBitDecoder> dec;
  verif_assert(dec.StartDecoding(&db), "decoder accepts");
  uint32_t r = 0; dec.DecodeLeastSignificantBits32(w, &r);
  verif_assert(r == v, "folded integer coder round trip");
  verif_assert(dec.DecodeNextBit() == b, "plain bit round trip");
  dec.EndDecoding();
  verif_assert(db.remaining_size() == 0, "exact consumption");
  verif_reach();
}
