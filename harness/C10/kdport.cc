// C10.kd_portable_id: the portable (quantized integer) attribute that the kd-tree attributes decoder creates for a float
// attribute must stand for that attribute: same semantic type, same component count and the SAME UNIQUE ID -- when the
// transform is skipped, the portable attribute is what the caller receives (C10.kd_skip decides that step and assumes
// exactly this).  The real KdTreeAttributesDecoder::DecodePortableAttributes runs on real objects; the kd-tree core is
// cut by giving it an invalid compression level, which is rejected AFTER the portable attributes were created.
#include "verif.h"
#include "draco/compression/attributes/kd_tree_attributes_decoder.cc"
#include "draco/compression/attributes/attributes_decoder.cc"
#include "draco/compression/point_cloud/point_cloud_decoder.cc"
#include "draco/core/bit_utils.cc"
#include "draco/core/decoder_buffer.cc"
#include "draco/core/data_buffer.cc"
#include "draco/core/draco_types.cc"
#include "draco/core/quantization_utils.cc"
#include "draco/core/status.cc"
#include "draco/attributes/attribute_quantization_transform.cc"
#include "draco/attributes/attribute_transform.cc"
#include "draco/attributes/geometry_attribute.cc"
#include "draco/attributes/point_attribute.cc"
#include "draco/point_cloud/point_cloud.cc"
using namespace draco;
struct VersionOnlyDecoder : public PointCloudDecoder {
  bool CreateAttributesDecoder(int32_t) override { return false; }
};
#define NATT 2
extern "C" void h_kd_portable_id(void) {
  PointAttribute out[NATT]; DataBuffer out_db[NATT]; std::unique_ptr<PointAttribute> out_slots[NATT]; int32_t ids[NATT];
  uint8_t ty[NATT], nc[NATT]; uint32_t uid[NATT];
  for (int i = 0; i < NATT; ++i) {
    ty[i] = nondet_u8(); verif_assume(ty[i] <= (uint8_t)GeometryAttribute::GENERIC);
    nc[i] = nondet_u8(); verif_assume(nc[i] >= 1 && nc[i] <= 4);
    uid[i] = nondet_u32();
    out[i].GeometryAttribute::Init((GeometryAttribute::Type)ty[i], &out_db[i], nc[i], DT_FLOAT32, false, 4 * nc[i], 0);
    out[i].attribute_buffer_.reset(&out_db[i]); out[i].unique_id_ = uid[i];
    out_slots[i].reset(&out[i]); ids[i] = i;
  }
  PointCloud pc; pc.num_points_ = 0;                       // no points: only the bookkeeping is the subject
  verif_adopt(pc.attributes_, out_slots, NATT, NATT);
  VersionOnlyDecoder pcd; pcd.point_cloud_ = &pc;
  KdTreeAttributesDecoder dec;
  dec.point_cloud_decoder_ = &pcd; dec.point_cloud_ = &pc;
  verif_adopt(dec.point_attribute_ids_, ids, NATT, NATT);
  std::unique_ptr<PointAttribute> port_slots[NATT];
  verif_adopt(dec.quantized_portable_attributes_, port_slots, 0, NATT);
  char buf[1]; buf[0] = (char)(7 + (nondet_u8() % 200));   // invalid compression level: rejected after the creation loop
  DecoderBuffer db; db.Init(buf, 1, DRACO_BITSTREAM_VERSION(2, 3));
  const bool ok = dec.DecodePortableAttributes(&db);
  verif_assert(!ok, "an invalid compression level is rejected");
  // The cut relies on the level being validated AFTER the portable attributes were created.  If a future version
  // validates it earlier, nothing was created and this obligation has nothing to decide: the end of the harness is then
  // not reached and the run is reported as broken (exit 2), not as a violation.
  const bool created = dec.quantized_portable_attributes_.size() == NATT;
  uint32_t i = nondet_u32(); verif_assume(i < NATT);
  const PointAttribute *p = created ? port_slots[i].get() : nullptr;
  if (created) {
  verif_assert(p != nullptr, "portable attribute created");
  if (p != nullptr) {
    verif_observe(p->unique_id());
    verif_assert(p->attribute_type() == (GeometryAttribute::Type)ty[i] && p->num_components() == nc[i] && p->data_type() == DT_UINT32, "the portable attribute has the type and component count of the attribute it stands for");
    verif_assert(p->unique_id() == uid[i], "the portable attribute carries the unique id of the attribute it stands for");
  }
  }
  for (int k = 0; k < NATT; ++k) { port_slots[k].reset(); out_slots[k].release(); out[k].attribute_buffer_.release(); }
  verif_release(pc.attributes_); verif_release(dec.point_attribute_ids_); verif_release(dec.quantized_portable_attributes_);
  if (created) verif_reach();
}
