// C10 / C12: attribute quantization transform at the object level (real PointAttribute, DataBuffer,
// AttributeTransformData, virtual CopyToAttributeTransformData).
#include "verif.h"
#include "draco/attributes/attribute_octahedron_transform.h"
#include "draco/attributes/attribute_octahedron_transform.cc"
#include "draco/attributes/attribute_quantization_transform.h"
#include "draco/attributes/attribute_quantization_transform.cc"
#include "draco/attributes/attribute_transform.cc"
#include "draco/attributes/geometry_attribute.cc"
#include "draco/attributes/point_attribute.cc"
#include "draco/core/data_buffer.cc"
#include "draco/core/draco_types.cc"
#include "draco/core/quantization_utils.cc"
#include <string.h>
using namespace draco;
#ifndef NCOMP
#define NCOMP 2
#endif
static uint32_t fbits(float f) { uint32_t u; memcpy(&u, &f, 4); return u; }

// C10.params_rt: the transform description attached to the attribute carries exactly the decoder's parameters
extern "C" void h_qparams_rt(void) {
  AttributeQuantizationTransform t;
  int q = nondet_i32(); verif_assume(q >= 1 && q <= 30);
  float mins[NCOMP]; for (int c = 0; c < NCOMP; ++c) mins[c] = nondet_float();
  float range = nondet_float();
  verif_assert(t.SetParameters(q, mins, NCOMP, range), "SetParameters accepts q in 1..30");
  GeometryAttribute ga;
  ga.Init(GeometryAttribute::POSITION, nullptr, NCOMP, DT_INT32, false, 4 * NCOMP, 0);
  PointAttribute pa(ga);
  pa.SetIdentityMapping();
  pa.Reset(1);
  verif_assert(t.TransferToAttribute(&pa), "TransferToAttribute");
  AttributeQuantizationTransform u;
  verif_assert(u.InitFromAttribute(pa), "InitFromAttribute reads the description back");
  verif_assert(u.quantization_bits() == q, "quantization bits identical");
  verif_assert(fbits(u.range()) == fbits(range), "range bit-identical");
  for (int c = 0; c < NCOMP; ++c) verif_assert(fbits(u.min_value(c)) == fbits(mins[c]), "min value bit-identical");
  verif_reach();
}

// C10.params_reuse: the same for a transform object that was used before (any earlier parameters, MORE or fewer
// components): SetParameters replaces the whole state, the description attached afterwards is that of the new parameters
extern "C" void h_qparams_reuse(void) {
  AttributeQuantizationTransform t;
  float mins0[NCOMP + 1]; for (int c = 0; c < NCOMP + 1; ++c) mins0[c] = nondet_float();
  int n0 = nondet_i32(); verif_assume(n0 >= 1 && n0 <= NCOMP + 1);
  int q0 = nondet_i32(); verif_assume(q0 >= 1 && q0 <= 30);
  verif_assert(t.SetParameters(q0, mins0, n0, nondet_float()), "earlier use of the transform object");
  int q = nondet_i32(); verif_assume(q >= 1 && q <= 30);
  float mins[NCOMP]; for (int c = 0; c < NCOMP; ++c) mins[c] = nondet_float();
  float range = nondet_float();
  verif_assert(t.SetParameters(q, mins, NCOMP, range), "SetParameters accepts q in 1..30");
  GeometryAttribute ga;
  ga.Init(GeometryAttribute::POSITION, nullptr, NCOMP, DT_INT32, false, 4 * NCOMP, 0);
  PointAttribute pa(ga);
  pa.SetIdentityMapping();
  pa.Reset(1);
  verif_assert(t.TransferToAttribute(&pa), "TransferToAttribute");
  AttributeQuantizationTransform u;
  verif_assert(u.InitFromAttribute(pa), "InitFromAttribute reads the description back");
  verif_assert(u.quantization_bits() == q, "quantization bits identical");
  verif_assert(fbits(u.range()) == fbits(range), "range bit-identical (no stale state of the earlier use)");
  for (int c = 0; c < NCOMP; ++c) verif_assert(fbits(u.min_value(c)) == fbits(mins[c]), "min value bit-identical");
  verif_reach();
}

extern "C" void h_octparams_rt(void) {
  AttributeOctahedronTransform t;
  int q = nondet_i32(); verif_assume(q >= 2 && q <= 30);
  t.SetParameters(q);
  GeometryAttribute ga;
  ga.Init(GeometryAttribute::NORMAL, nullptr, 2, DT_INT32, false, 8, 0);
  PointAttribute pa(ga);
  pa.SetIdentityMapping();
  pa.Reset(1);
  verif_assert(t.TransferToAttribute(&pa), "TransferToAttribute");
  AttributeOctahedronTransform u;
  verif_assert(u.InitFromAttribute(pa), "InitFromAttribute");
  verif_assert(u.quantization_bits() == q, "octahedron quantization bits identical");
  verif_reach();
}

// C10.inverse_eq: applying the described transform to the exposed integers == what the ordinary decode computes
extern "C" void h_inverse_eq(void) {
  AttributeQuantizationTransform t;
  int q = nondet_i32(); verif_assume(q >= 1 && q <= 30);
  float mins[NCOMP]; for (int c = 0; c < NCOMP; ++c) mins[c] = nondet_float();
  float range = nondet_float();
  t.SetParameters(q, mins, NCOMP, range);
  // the portable (quantized) attribute as the decoder holds it: 1 value, any int32 contents
  GeometryAttribute ga;
  ga.Init(GeometryAttribute::POSITION, nullptr, NCOMP, DT_INT32, false, 4 * NCOMP, 0);
  PointAttribute portable(ga);
  portable.SetIdentityMapping();
  portable.Reset(1);
  int32_t qv[NCOMP]; for (int c = 0; c < NCOMP; ++c) qv[c] = nondet_i32();
  portable.SetAttributeValue(AttributeValueIndex(0), qv);
  t.TransferToAttribute(&portable);
  // ordinary decode: inverse transform with the decoder's own transform object
  GeometryAttribute gf;
  gf.Init(GeometryAttribute::POSITION, nullptr, NCOMP, DT_FLOAT32, false, 4 * NCOMP, 0);
  PointAttribute out1(gf), out2(gf);
  out1.SetIdentityMapping(); out1.Reset(1);
  out2.SetIdentityMapping(); out2.Reset(1);
  const bool ok1 = t.InverseTransformAttribute(portable, &out1);
  // skip-transform user: re-reads the description from the exposed attribute and applies it
  AttributeQuantizationTransform u;
  verif_assert(u.InitFromAttribute(portable), "description readable");
  const bool ok2 = u.InverseTransformAttribute(portable, &out2);
  verif_assert(ok1 == ok2, "same success");
  if (ok1) {
    float a[NCOMP], b[NCOMP];
    out1.GetValue(AttributeValueIndex(0), a); out2.GetValue(AttributeValueIndex(0), b);
    for (int c = 0; c < NCOMP; ++c) verif_assert(fbits(a[c]) == fbits(b[c]), "described transform reproduces the ordinary decode bit for bit");
  }
  verif_reach();
}

// C12.bypass: explicit parameters are stored verbatim (no data-dependent recomputation) and a second ComputeParameters is refused
extern "C" void h_bypass(void) {
  AttributeQuantizationTransform t;
  int q = nondet_i32();
  float mins[NCOMP]; for (int c = 0; c < NCOMP; ++c) mins[c] = nondet_float();
  float range = nondet_float();
  const bool ok = t.SetParameters(q, mins, NCOMP, range);
  verif_assert(ok == (q >= 1 && q <= 30), "SetParameters accepts exactly q in 1..30");
  if (ok) {
    verif_assert(t.quantization_bits() == q && fbits(t.range()) == fbits(range), "bits and range stored verbatim");
    for (int c = 0; c < NCOMP; ++c) verif_assert(fbits(t.min_value(c)) == fbits(mins[c]), "origin stored verbatim");
    GeometryAttribute gf;
    gf.Init(GeometryAttribute::POSITION, nullptr, NCOMP, DT_FLOAT32, false, 4 * NCOMP, 0);
    PointAttribute src(gf); src.SetIdentityMapping(); src.Reset(1);
    float v[NCOMP]; for (int c = 0; c < NCOMP; ++c) v[c] = nondet_float();
    src.SetAttributeValue(AttributeValueIndex(0), v);
    verif_assert(!t.ComputeParameters(src, q), "data-driven ComputeParameters cannot overwrite explicit parameters");
    verif_assert(fbits(t.range()) == fbits(range), "range still the caller's");
  }
  verif_reach();
}

// C12.local: value-locality (2-safety).  Quantize+dequantize a 2-point attribute twice; the two runs agree on point 0
// and may differ arbitrarily in point 1.  Point 0 must decode bit-identically.
#ifndef QBITS
#define QBITS 11
#endif
static void run_once(int q, const float *mins, float range, const float *p0, const float *p1, float *dec0) {
  AttributeQuantizationTransform t;
  t.SetParameters(q, mins, NCOMP, range);
  GeometryAttribute gf;
  gf.Init(GeometryAttribute::POSITION, nullptr, NCOMP, DT_FLOAT32, false, 4 * NCOMP, 0);
  PointAttribute src(gf); src.SetIdentityMapping(); src.Reset(2);
  src.SetAttributeValue(AttributeValueIndex(0), p0);
  src.SetAttributeValue(AttributeValueIndex(1), p1);
  std::unique_ptr<PointAttribute> portable = t.InitTransformedAttribute(src, 2);
  std::vector<PointIndex> none;
  t.TransformAttribute(src, none, portable.get());
  PointAttribute out(gf); out.SetIdentityMapping(); out.Reset(2);
  t.InverseTransformAttribute(*portable, &out);
  out.GetValue(AttributeValueIndex(0), dec0);
}
extern "C" void h_local(void) {
  float mins[NCOMP], p0[NCOMP], p1a[NCOMP], p1b[NCOMP];
  for (int c = 0; c < NCOMP; ++c) { mins[c] = nondet_float(); p0[c] = nondet_float(); p1a[c] = nondet_float(); p1b[c] = nondet_float(); }
  float range = nondet_float();
  float d_a[NCOMP], d_b[NCOMP];
  int q = nondet_i32(); verif_assume(q >= 1 && q <= 30);
  run_once(q, mins, range, p0, p1a, d_a);
  run_once(q, mins, range, p0, p1b, d_b);
  for (int c = 0; c < NCOMP; ++c) verif_assert(fbits(d_a[c]) == fbits(d_b[c]), "decoded value of a point does not depend on the other points");
  verif_reach();
}

// C04.params: automatic quantization parameters computed from the data (2 points x NCOMP components, all float bit patterns)
#include <math.h>
extern "C" void h_params(void) {
  GeometryAttribute gf;
  gf.Init(GeometryAttribute::POSITION, nullptr, NCOMP, DT_FLOAT32, false, 4 * NCOMP, 0);
  PointAttribute src(gf); src.SetIdentityMapping(); src.Reset(2);
  float a[NCOMP], b[NCOMP];
  bool finite = true;
  for (int c = 0; c < NCOMP; ++c) {
    a[c] = nondet_float(); b[c] = nondet_float();
    finite = finite && !isnan(a[c]) && !isinf(a[c]) && !isnan(b[c]) && !isinf(b[c]);
  }
  src.SetAttributeValue(AttributeValueIndex(0), a);
  src.SetAttributeValue(AttributeValueIndex(1), b);
  int q = nondet_i32(); verif_assume(q >= 1 && q <= 30);
  AttributeQuantizationTransform t;
  const bool ok = t.ComputeParameters(src, q);
  verif_assert(ok == finite, "ComputeParameters succeeds exactly for finite data");
  if (ok) {
    bool any_pos = false, matches = false, covers = true;
    for (int c = 0; c < NCOMP; ++c) {
      float mn = a[c], mx = a[c];          // same tie-breaking as the code (matters for -0.0 / +0.0 under the UF abstraction)
      if (mn > b[c]) mn = b[c];
      if (mx < b[c]) mx = b[c];
      verif_assert(t.min_value(c) == mn, "origin is the per-component minimum of the data");
      const float dif = mx - mn;              // the same subtraction the code performs
      if (dif > 0.f) any_pos = true;
      if (dif > 0.f && t.range() == dif) matches = true;
      if (dif > t.range()) covers = false;
    }
    verif_assert(covers, "range covers every per-component extent");
    verif_assert(any_pos ? matches : (t.range() == 1.f), "range is the largest per-component extent (1.0 only when all values coincide)");
    verif_assert(t.quantization_bits() == q, "bits stored");
  }
  verif_reach();
}

// C12.methods_agree: the two quantization entry points (kd-tree path: all points in order; sequential / mesh path: explicit
// point id list) map the same coordinate to the same integer -- the decoded value must not depend on the encoding method
extern "C" void h_methods_agree(void) {
  int q = nondet_i32(); verif_assume(q >= 1 && q <= 30);
  float mins[NCOMP], p0[NCOMP];
  for (int c = 0; c < NCOMP; ++c) { mins[c] = nondet_float(); p0[c] = nondet_float(); }
  float range = nondet_float();
  AttributeQuantizationTransform t;
  t.SetParameters(q, mins, NCOMP, range);
  GeometryAttribute gf;
  gf.Init(GeometryAttribute::POSITION, nullptr, NCOMP, DT_FLOAT32, false, 4 * NCOMP, 0);
  PointAttribute src(gf); src.SetIdentityMapping(); src.Reset(1);
  src.SetAttributeValue(AttributeValueIndex(0), p0);
  std::unique_ptr<PointAttribute> pa = t.InitTransformedAttribute(src, 1);
  std::unique_ptr<PointAttribute> pb = t.InitTransformedAttribute(src, 1);
  std::vector<PointIndex> none, ids; ids.push_back(PointIndex(0));
  t.TransformAttribute(src, none, pa.get());
  t.TransformAttribute(src, ids, pb.get());
  int32_t a[NCOMP], b[NCOMP];
  pa->GetValue(AttributeValueIndex(0), a); pb->GetValue(AttributeValueIndex(0), b);
  for (int c = 0; c < NCOMP; ++c) verif_assert(a[c] == b[c], "both quantization entry points produce the same integer for the same coordinate");
  verif_reach();
}

// C04.inverse_is_dequant / C12 grid: the inverse transform of the attribute layer returns exactly
// Dequantizer(range, 2^q-1).DequantizeFloat(k) + origin for EVERY stored integer k (in particular k = 2^q, which the
// encoder produces at the top of the range for q >= 24)
extern "C" void h_inverse_is_dequant(void) {
  int q = nondet_i32(); verif_assume(q >= 1 && q <= 30);
  float mins[NCOMP]; for (int c = 0; c < NCOMP; ++c) mins[c] = nondet_float();
  float range = nondet_float();
  AttributeQuantizationTransform t;
  t.SetParameters(q, mins, NCOMP, range);
  GeometryAttribute ga; ga.Init(GeometryAttribute::POSITION, nullptr, NCOMP, DT_INT32, false, 4 * NCOMP, 0);
  PointAttribute portable(ga); portable.SetIdentityMapping(); portable.Reset(1);
  int32_t k[NCOMP]; for (int c = 0; c < NCOMP; ++c) k[c] = nondet_i32();
  portable.SetAttributeValue(AttributeValueIndex(0), k);
  GeometryAttribute gf; gf.Init(GeometryAttribute::POSITION, nullptr, NCOMP, DT_FLOAT32, false, 4 * NCOMP, 0);
  PointAttribute out(gf); out.SetIdentityMapping(); out.Reset(1);
  const bool ok = t.InverseTransformAttribute(portable, &out);
  Dequantizer dq;
  const bool dok = dq.Init(range, (int32_t)((1u << q) - 1));
  verif_assert(ok == dok, "inverse transform succeeds iff the dequantizer accepts the parameters");
  if (ok) {
    float v[NCOMP]; out.GetValue(AttributeValueIndex(0), v);
    for (int c = 0; c < NCOMP; ++c) {
      const float ref = dq.DequantizeFloat(k[c]) + mins[c];
      verif_assert(fbits(v[c]) == fbits(ref), "decoded value == Dequantizer(k) + origin for every stored integer k");
    }
  }
  verif_reach();
}
