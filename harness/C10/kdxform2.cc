// C10.kd_skip: the kd-tree attributes decoder turns its portable (quantized) attributes back into the geometry's
// attributes.  With the transform skipped for ANY subset of the attribute types, every float attribute must still be
// paired with ITS OWN portable data and transform: a non-skipped attribute equals the dequantization of its own integers
// with its own parameters, a skipped one is a copy of its own portable attribute including its transform description.
// The real KdTreeAttributesDecoder / PointCloud / PointAttribute / DataBuffer objects are used, their state is set
// directly (no construction through the API: every object is a small separate stack object).
#include "verif.h"
#include "draco/attributes/geometry_attribute.h"
#include "draco/compression/config/draco_options.h"
// the option lookup (std::map<std::string,...>) is replaced by a harness-controlled table, for the model AND the native
// build (explicit specialisation of the one member function the decoder calls)
bool verif_skip[8];
namespace draco {
template <>
bool DracoOptions<GeometryAttribute::Type>::GetAttributeBool(const GeometryAttribute::Type &att_key, const std::string &, bool) const {
  return verif_skip[(int)att_key & 7];
}
}  // namespace draco
#include "draco/compression/attributes/kd_tree_attributes_decoder.cc"
#include "draco/compression/attributes/attributes_decoder.cc"
#include "draco/compression/point_cloud/point_cloud_decoder.cc"
#include "draco/core/bit_utils.cc"
#include "draco/core/decoder_buffer.cc"
#include "draco/core/data_buffer.cc"
#include "draco/core/draco_types.cc"
#include "draco/core/quantization_utils.cc"
#include "draco/core/status.cc"
#include "draco/attributes/attribute_quantization_transform.cc"
#include "draco/attributes/attribute_transform.cc"
#include "draco/attributes/geometry_attribute.cc"
#include "draco/attributes/point_attribute.cc"
#include "draco/point_cloud/point_cloud.cc"
#include <string.h>
using namespace draco;
static uint32_t fbits(float f) { uint32_t u; memcpy(&u, &f, 4); return u; }
struct VersionOnlyDecoder : public PointCloudDecoder {
  bool CreateAttributesDecoder(int32_t) override { return false; }
};
#define NATT 2
extern "C" void h_kd_skip(void) {
  for (int i = 0; i < 8; ++i) verif_skip[i] = nondet_bool();           // EVERY subset of attribute types
  // per attribute: semantic type, quantization parameters, quantized integer
  GeometryAttribute::Type ty[NATT]; int32_t q[NATT]; float mn[NATT], range[NATT]; uint32_t k[NATT];
  // storage: output (float) attribute, portable (uint32) attribute, its transform description, the decoder's transform
  PointAttribute out[NATT], port[NATT]; DataBuffer out_db[NATT], port_db[NATT];
  uint8_t out_bytes[NATT][4], port_bytes[NATT][4], td_bytes[NATT][12];
  AttributeTransformData td[NATT]; AttributeQuantizationTransform tr[NATT]; float tr_min[NATT][1];
  std::unique_ptr<PointAttribute> out_slots[NATT], port_slots[NATT]; int32_t ids[NATT];
  for (int i = 0; i < NATT; ++i) {
    const uint8_t t = nondet_u8(); verif_assume(t <= (uint8_t)GeometryAttribute::GENERIC); ty[i] = (GeometryAttribute::Type)t;
    q[i] = 1 + (nondet_u8() % 30); mn[i] = nondet_float(); range[i] = nondet_float(); k[i] = nondet_u32();
    verif_adopt(out_db[i].data_, out_bytes[i], 4, 4); verif_adopt(port_db[i].data_, port_bytes[i], 4, 4);
    for (int b = 0; b < 4; ++b) out_bytes[i][b] = 0;
    memcpy(port_bytes[i], &k[i], 4);
    out[i].GeometryAttribute::Init(ty[i], &out_db[i], 1, DT_FLOAT32, false, 4, 0);
    out[i].attribute_buffer_.reset(&out_db[i]); out[i].identity_mapping_ = true; out[i].num_unique_entries_ = 1; out[i].unique_id_ = 10 + i;
    port[i].GeometryAttribute::Init(ty[i], &port_db[i], 1, DT_UINT32, false, 4, 0);
    port[i].attribute_buffer_.reset(&port_db[i]); port[i].identity_mapping_ = true; port[i].num_unique_entries_ = 1; port[i].unique_id_ = 10 + i;
    memcpy(td_bytes[i], &q[i], 4); memcpy(td_bytes[i] + 4, &mn[i], 4); memcpy(td_bytes[i] + 8, &range[i], 4);
    verif_adopt(td[i].buffer_.data_, td_bytes[i], 12, 12); td[i].transform_type_ = ATTRIBUTE_QUANTIZATION_TRANSFORM;
    port[i].attribute_transform_data_.reset(&td[i]);
    tr[i].quantization_bits_ = q[i]; tr[i].range_ = range[i]; tr_min[i][0] = mn[i]; verif_adopt(tr[i].min_values_, tr_min[i], 1, 1);
    out_slots[i].reset(&out[i]); port_slots[i].reset(&port[i]); ids[i] = i;
  }
  PointCloud pc; pc.num_points_ = 1;
  verif_adopt(pc.attributes_, out_slots, NATT, NATT);
  VersionOnlyDecoder pcd; DecoderOptions opt; pcd.options_ = &opt; pcd.point_cloud_ = &pc;
  KdTreeAttributesDecoder dec;
  dec.point_cloud_decoder_ = &pcd; dec.point_cloud_ = &pc;
  verif_adopt(dec.point_attribute_ids_, ids, NATT, NATT);
  verif_adopt(dec.quantized_portable_attributes_, port_slots, NATT, NATT);
  verif_adopt(dec.attribute_quantization_transforms_, tr, NATT, NATT);
  const bool ok = dec.TransformAttributesToOriginalFormat();
  verif_observe(ok);
  if (ok) {
    uint32_t i = nondet_u32(); verif_assume(i < NATT);
    const PointAttribute *a = &out[i];
    uint32_t raw; memcpy(&raw, out_bytes[i], 4);       // data_ was adopted with exact capacity: Update/Write stay in place
    verif_assert(out_db[i].data_.data() == out_bytes[i] && out_db[i].data_.size() == 4, "the attribute's storage is still the adopted one");
    if (verif_skip[(int)ty[i] & 7]) {
      verif_assert(a->data_type() == DT_UINT32 && raw == k[i], "a skipped attribute exposes its OWN quantized integers");
      verif_assert(a->unique_id() == 10 + i, "... under its original unique id");
      const AttributeTransformData *d = a->attribute_transform_data_.get();
      verif_assert(d != nullptr && d->transform_type() == ATTRIBUTE_QUANTIZATION_TRANSFORM && d->buffer_.data_.size() == 12, "... together with a quantization transform description");
      if (d != nullptr && d->buffer_.data_.size() == 12)
        verif_assert(memcmp(d->buffer_.data_.data(), td_bytes[i], 12) == 0, "... which is its OWN transform description (bits, origin, range)");
    } else {
      Dequantizer dq; dq.Init(range[i], (int32_t)((1u << q[i]) - 1));
      float got; memcpy(&got, &raw, 4);
      verif_assert(a->data_type() == DT_FLOAT32 && fbits(got) == fbits(dq.DequantizeFloat(k[i]) + mn[i]), "a non-skipped attribute is dequantized from its OWN integers with its OWN parameters");
    }
  }
  // hand the borrowed objects back before the destructors run
  for (int i = 0; i < NATT; ++i) {
    out_slots[i].release(); port_slots[i].release(); port[i].attribute_transform_data_.release();
    out[i].attribute_buffer_.release(); port[i].attribute_buffer_.release();
    verif_release(td[i].buffer_.data_); verif_release(tr[i].min_values_);
    verif_release(out_db[i].data_); verif_release(port_db[i].data_);
  }
  verif_release(pc.attributes_); verif_release(dec.point_attribute_ids_); verif_release(dec.quantized_portable_attributes_); verif_release(dec.attribute_quantization_transforms_);
  verif_reach();
}
