// C10.kd_skip: the kd-tree attributes decoder turns its portable (quantized) attributes back into the geometry's
// attributes.  With the transform skipped for ANY subset of the attribute types, every attribute must still be paired with
// ITS OWN portable data and transform: a non-skipped attribute equals the dequantization of its own integers, a skipped
// one is a copy of its own portable attribute.
#include "verif.h"
#include "draco/attributes/geometry_attribute.h"
#include "draco/compression/config/draco_options.h"
// the option lookup (std::map<std::string,...>) is replaced by a harness-controlled table, for the model AND the native
// build (explicit specialisation of the one member function the decoder calls)
bool verif_skip[8];
namespace draco {
template <>
bool DracoOptions<GeometryAttribute::Type>::GetAttributeBool(const GeometryAttribute::Type &att_key, const std::string &, bool) const {
  return verif_skip[(int)att_key & 7];
}
}  // namespace draco
#include "draco/compression/attributes/kd_tree_attributes_decoder.cc"
#include "draco/compression/attributes/attributes_decoder.cc"
#include "draco/compression/point_cloud/point_cloud_decoder.cc"
#include "draco/core/bit_utils.cc"
#include "draco/core/decoder_buffer.cc"
#include "draco/core/data_buffer.cc"
#include "draco/core/draco_types.cc"
#include "draco/core/quantization_utils.cc"
#include "draco/core/status.cc"
#include "draco/attributes/attribute_quantization_transform.cc"
#include "draco/attributes/attribute_transform.cc"
#include "draco/attributes/geometry_attribute.cc"
#include "draco/attributes/point_attribute.cc"
#include "draco/point_cloud/point_cloud.cc"
#include <string.h>
using namespace draco;
static uint32_t fbits(float f) { uint32_t u; memcpy(&u, &f, 4); return u; }
struct VersionOnlyDecoder : public PointCloudDecoder {
  bool CreateAttributesDecoder(int32_t) override { return false; }
};
extern "C" void h_kd_skip(void) {
  for (int i = 0; i < 8; ++i) verif_skip[i] = false;
  verif_skip[(int)GeometryAttribute::POSITION] = SKIP0; verif_skip[(int)GeometryAttribute::TEX_COORD] = SKIP1;   // one query per skip configuration
  const GeometryAttribute::Type types[2] = {GeometryAttribute::POSITION, GeometryAttribute::TEX_COORD};
  PointCloud pc; pc.set_num_points(1);
  int32_t q[2]; float mn[2], range[2]; uint32_t k[2];
  VersionOnlyDecoder pcd; DecoderOptions opt; pcd.options_ = &opt; pcd.point_cloud_ = &pc;
  KdTreeAttributesDecoder dec;
  verif_assert(dec.Init(&pcd, &pc), "Init");
  for (int i = 0; i < 2; ++i) {
    GeometryAttribute gf; gf.Init(types[i], nullptr, 1, DT_FLOAT32, false, 4, 0);
    std::unique_ptr<PointAttribute> a(new PointAttribute(gf)); a->SetIdentityMapping(); a->Reset(1);
    const int id = pc.AddAttribute(std::move(a));
    dec.point_attribute_ids_.push_back(id);
    q[i] = 1 + (nondet_u8() % 30); mn[i] = nondet_float(); range[i] = nondet_float(); k[i] = nondet_u32();
    AttributeQuantizationTransform t; t.SetParameters(q[i], &mn[i], 1, range[i]);
    GeometryAttribute gi; gi.Init(types[i], nullptr, 1, DT_UINT32, false, 4, 0);
    std::unique_ptr<PointAttribute> p(new PointAttribute(gi)); p->SetIdentityMapping(); p->Reset(1);
    p->SetAttributeValue(AttributeValueIndex(0), &k[i]);
    t.TransferToAttribute(p.get());
    dec.quantized_portable_attributes_.push_back(std::move(p));
    dec.attribute_quantization_transforms_.push_back(t);
  }
  const bool ok = dec.TransformAttributesToOriginalFormat();
  if (ok) {
    for (int i = 0; i < 2; ++i) {
      const PointAttribute *a = pc.attribute(i);
      if (verif_skip[(int)types[i] & 7]) {
        uint32_t got = 0; a->GetValue(AttributeValueIndex(0), &got);
        verif_assert(a->data_type() == DT_UINT32 && got == k[i], "a skipped attribute exposes its OWN quantized integers");
        AttributeQuantizationTransform u;
        verif_assert(u.InitFromAttribute(*a) && u.quantization_bits() == q[i] && fbits(u.range()) == fbits(range[i]) && fbits(u.min_value(0)) == fbits(mn[i]),
                     "... together with its OWN transform description");
      } else {
        Dequantizer dq; dq.Init(range[i], (int32_t)((1u << q[i]) - 1));
        float got = 0; a->GetValue(AttributeValueIndex(0), &got);
        verif_assert(a->data_type() == DT_FLOAT32 && fbits(got) == fbits(dq.DequantizeFloat(k[i]) + mn[i]), "a non-skipped attribute is dequantized from its OWN integers with its OWN parameters");
      }
    }
  }
  verif_reach();
}
