// C10.normal_dec_desc: after the sequential normal decoder has read the data needed by the portable transform, the
// portable (octahedral, integer) attribute carries the transform description -- for EVERY supported bitstream version --
// so that a caller who skips the transform can reproduce the ordinary decode.
#include "verif.h"
#include "draco/core/bit_utils.cc"
#include "draco/core/decoder_buffer.cc"
#include "draco/core/data_buffer.cc"
#include "draco/core/draco_types.cc"
#include "draco/attributes/attribute_octahedron_transform.cc"
#include "draco/attributes/attribute_transform.cc"
#include "draco/attributes/geometry_attribute.cc"
#include "draco/attributes/point_attribute.cc"
#include "draco/compression/point_cloud/point_cloud_decoder.h"
#include "draco/compression/point_cloud/point_cloud_decoder.cc"
#include "draco/core/status.cc"
#include "draco/compression/attributes/sequential_attribute_decoder.cc"
#include "draco/compression/attributes/sequential_integer_attribute_decoder.cc"
#include "draco/compression/attributes/sequential_normal_attribute_decoder.h"
#include "draco/compression/attributes/sequential_normal_attribute_decoder.cc"
using namespace draco;
struct VersionOnlyDecoder : public PointCloudDecoder {
  bool CreateAttributesDecoder(int32_t) override { return false; }
};
extern "C" void h_normal_dec_desc(void) {
  char buf[4]; verif_fill(buf, 4);
  uint32_t n = nondet_u32(); verif_assume(n <= 4);
  // every supported version: 1.0 .. 2.3
  const uint8_t maj = nondet_u8(), mnr = nondet_u8();
  verif_assume((maj == 1 && mnr <= 5) || (maj == 2 && mnr <= 3));
  DecoderBuffer db; db.Init(buf, n, DRACO_BITSTREAM_VERSION(maj, mnr));
  VersionOnlyDecoder pcd; pcd.version_major_ = maj; pcd.version_minor_ = mnr; pcd.buffer_ = &db;
  SequentialNormalAttributeDecoder dec;
  dec.decoder_ = &pcd;
  // the portable attribute the integer decoder has prepared: 2 x int32 octahedral coordinates, 1 value
  GeometryAttribute ga; ga.Init(GeometryAttribute::NORMAL, nullptr, 2, DT_INT32, false, 8, 0);
  std::unique_ptr<PointAttribute> port(new PointAttribute(ga));
  port->SetIdentityMapping(); port->Reset(1);
  dec.portable_attribute_ = std::move(port);
  // the final (float) normal attribute of the geometry
  GeometryAttribute gn; gn.Init(GeometryAttribute::NORMAL, nullptr, 3, DT_FLOAT32, false, 12, 0);
  PointAttribute final_att(gn); final_att.SetIdentityMapping(); final_att.Reset(1);
  dec.attribute_ = &final_att;
  // for streams older than 2.0 the parameters were already decoded by DecodeIntegerValues
  const int q_old = 2 + (nondet_u8() % 29);
  if (maj < 2) dec.octahedral_transform_.SetParameters(q_old);
  std::vector<PointIndex> ids;
  const bool ok = dec.DecodeDataNeededByPortableTransform(ids, &db);
  if (ok) {
    const PointAttribute *pa = dec.GetPortableAttribute();
    const AttributeTransformData *td = pa->GetAttributeTransformData();
    verif_assert(td != nullptr, "the portable normal attribute carries a transform description (all versions)");
    if (td != nullptr) {
      verif_assert(td->transform_type() == ATTRIBUTE_OCTAHEDRON_TRANSFORM, "it describes the octahedron transform");
      AttributeOctahedronTransform u;
      verif_assert(u.InitFromAttribute(*pa) && u.quantization_bits() == dec.octahedral_transform_.quantization_bits(),
                   "with the quantization bits the decoder itself uses");
    }
  }
  verif_assert(db.decoded_size() <= (int64_t)n, "never reads past the input");
  verif_reach();
}
