// Native runtime for harnesses: nondet_* read a stream of hex words, assertions are logged in the same
// format as the native side of the generated C (tools/ir2c.py PRELUDE) so that both can be diffed.
#include <stdint.h>
#include <stdio.h>
#include <stdlib.h>
#include <unistd.h>
#include <string.h>
#include <new>
static FILE *verif_stream;
static uint64_t verif_next(void) {
  unsigned long long v = 0;
  if (!verif_stream || fscanf(verif_stream, "%llx", &v) != 1) return 0;
  return v;
}
extern "C" {
uint64_t verif_input_len, verif_alloc_total, verif_alloc_count;
uint8_t nondet_u8(void) { return (uint8_t)verif_next(); }
uint16_t nondet_u16(void) { return (uint16_t)verif_next(); }
uint32_t nondet_u32(void) { return (uint32_t)verif_next(); }
uint64_t nondet_u64(void) { return (uint64_t)verif_next(); }
int8_t nondet_i8(void) { return (int8_t)nondet_u8(); }
int16_t nondet_i16(void) { return (int16_t)nondet_u16(); }
int32_t nondet_i32(void) { return (int32_t)nondet_u32(); }
int64_t nondet_i64(void) { return (int64_t)nondet_u64(); }
uint8_t nondet_bool(void) { return nondet_u8() & 1; }
float nondet_float(void) { uint32_t x = nondet_u32(); float f; memcpy(&f, &x, 4); return f; }
double nondet_double(void) { uint64_t x = nondet_u64(); double f; memcpy(&f, &x, 8); return f; }
void verif_assume(int c) { if (!c) { printf("ASSUME-STOP\n"); fflush(stdout); exit(0); } }
void verif_assert(int c, const char *msg) {
  char m[512]; size_t j = 0;
  for (const char *p = msg; *p && j < sizeof(m) - 1; ++p) m[j++] = (*p == '"') ? '\'' : (*p == '\\' ? '/' : *p);
  m[j] = 0;
  printf("assert %s: %s\n", m, c ? "ok" : "FAIL"); fflush(stdout);
}
void verif_reach(void) { printf("REACH\n"); fflush(stdout); }
void verif_observe(uint64_t v) { printf("obs %llx\n", (unsigned long long)v); fflush(stdout); }
void VERIF_ENTRY(void);
}
#ifndef VERIF_ALLOC_BOUND
#define VERIF_ALLOC_BOUND(n) 1
#endif
#ifndef VERIF_MAX_ALLOC
#define VERIF_MAX_ALLOC 32
#endif
#define g_verif_input_len verif_input_len
#define g_verif_alloc_total verif_alloc_total
#define g_verif_alloc_count verif_alloc_count
static void *verif_new(size_t n) {
  if (!(VERIF_ALLOC_BOUND((uint64_t)n))) { printf("allocbound-fail ALLOC-BOUND: allocation size not justified by remaining input / declared counts\n"); fflush(stdout); }
#ifndef VERIF_REPLAY
  verif_assume(n <= VERIF_MAX_ALLOC);
#else
  if (n > (1ull << 32)) { printf("ASSUME-STOP (allocation of %llu bytes refused in replay)\n", (unsigned long long)n); fflush(stdout); exit(0); }
#endif
  verif_alloc_total += n; verif_alloc_count += 1;
  void *p = malloc(n ? n : 1);
  if (!p) abort();
  return p;
}
void *operator new(size_t n) { return verif_new(n); }
void *operator new[](size_t n) { return verif_new(n); }
void operator delete(void *p) noexcept { free(p); }
void operator delete[](void *p) noexcept { free(p); }
void operator delete(void *p, size_t) noexcept { free(p); }
void operator delete[](void *p, size_t) noexcept { free(p); }
#include <exception>
#include <signal.h>
static void verif_abort_handler(int) { const char m[] = "ASSUME-STOP\n"; fflush(stdout); (void)!write(1, m, sizeof(m) - 1); _Exit(0); }   // abort() from a libstdc++ assertion = cut path in the model
#ifdef VERIF_REPLAY
static void verif_terminate() { printf("ABNORMAL-EXIT uncaught C++ exception (std::terminate)\n"); fflush(stdout); _Exit(3); }
#else
static void verif_terminate() { printf("ASSUME-STOP\n"); fflush(stdout); _Exit(0); }
#endif   // uncaught C++ exception = cut path (assume(false)) in the model
int main(int argc, char **argv) {
  std::set_terminate(verif_terminate);
#ifndef VERIF_REPLAY
  signal(SIGABRT, verif_abort_handler);
#endif
  if (argc > 1) verif_stream = fopen(argv[1], "r");
  VERIF_ENTRY();
  printf("END\n");
  return 0;
}
