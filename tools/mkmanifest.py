#!/usr/bin/env python3
"""Regenerates /verif/MANIFEST.json from tools/manifest_data.py (kept valid at all times)."""
import json, os, sys
sys.path.insert(0, os.path.dirname(os.path.abspath(__file__)))
import manifest_data as D
V = os.path.dirname(os.path.dirname(os.path.abspath(__file__)))
props = [json.loads(l)['id'] for l in open(os.path.join(V, 'properties.jsonl'))]
checks = []
for pid in props:
    if pid in D.CLAIMED:
        c = D.CLAIMED[pid]
        checks.append({
            'property_id': pid,
            'quick_cmd': './vcheck %s --tier quick' % pid,
            'thorough_cmd': './vcheck %s --tier thorough' % pid,
            'evidence_file': 'evidence/%s.json' % pid,
            'replay_cmd_template': './vcheck replay {path}',
            'engine': c.get('engine', 'ir2c+cbmc'),
            'level_claimed': {'category': c.get('category', 'model_checking'), 'text': c['text'], 'design_ref': c['design_ref']},
            'level_note': c['note'],
            'technique': c['technique'],
        })
na = [{'property_id': p, 'reason': D.NOT_APPLICABLE[p]} for p in props if p not in D.CLAIMED]
for p in props:
    assert p in D.CLAIMED or p in D.NOT_APPLICABLE, p
m = {
    'version': 1,
    'setup_cmd': D.SETUP,
    'hooks': D.HOOKS,
    'engines': D.ENGINES,
    'checks': checks,
    'notes': D.NOTES,
    'not_applicable': na,
}
json.dump(m, open(os.path.join(V, 'MANIFEST.json'), 'w'), indent=1)
try:
    import jsonschema
    jsonschema.validate(m, json.load(open('/root/.vp/MANIFEST.schema.json')))
    print('MANIFEST.json valid: %d checks, %d not applicable' % (len(checks), len(na)))
except ImportError:
    print('MANIFEST.json written (jsonschema not available for validation)')
