SETUP = 'sh tools/setup.sh'
HOOKS = {
  'guard': 'GOOGLE_DRACO_VERIF',
  'enable': 'no source hooks are needed: harnesses are compiled with -fno-access-control and set object state directly; the define is passed (-DGOOGLE_DRACO_VERIF=1) to every harness compile but nothing in /repo tests it',
  'baseline_off_cmd': 'cmake --build /repo/_build -j16 && cd /repo/_build && ./draco_tests ; ./draco_factory_tests',
  'source_commits': [],
  'add_only': True,
}
ENGINES = [
  {'name': 'ir2c+cbmc', 'path': 'tools/ir2c.py, tools/vlib.py',
   'serves_properties': [], 'kind_free_text': 'real draco C++ -> clang++-14 LLVM IR -> own IR-to-C translator -> CBMC 6.11 bounded model checking (SAT/SMT verdict), counterexamples replayed natively'},
]
NOTES = ('Every check is ./vcheck <id> --tier quick|thorough (cwd /verif). Exit 0 = all obligations discharged by the solver within the stated bounds; '
         '1 = counterexample found and replayed against the real code (VIOLATION line); 2 = broken/inconclusive (never reported as success). '
         'See DESIGN.md.')
_T = 'bounded symbolic execution of the real functions (clang IR -> ir2c -> CBMC), solver verdict over all inputs within the stated bounds'
CLAIMED = {
 'C16': {
  'text': 'For every obligation the SAT solver proves the round-trip assertion for ALL inputs inside the stated bound (e.g. every int32 (min,max,orig,pred) 4-tuple for the wrap transform), on code regenerated from /repo each run; no sampling.',
  'design_ref': 'DESIGN.md 3/C16', 'technique': _T,
  'note': 'Trusted: clang lowering, ir2c translator (differentially tested each run), CBMC+SAT. Bounds: component count <= 3; octahedral transforms per concrete quantization bits q.'},
}
_WIP = 'check not built yet in this revision (work in progress, see DESIGN.md section 3 for the planned obligations)'
NOT_APPLICABLE = {p: _WIP for p in ['C%02d' % i for i in range(1, 21)]}
NOT_APPLICABLE.update({
 'C09': 'both sides of the comparison run over CornerTable/MeshAttributeCornerTable built inside encoder/decoder objects; CornerTable::Init alone gives no solver verdict on 2 symbolic triangles in 20 min and no leaf kernel implies the equality (DESIGN.md 5)',
 'C13': 'CornerTable::Init is a fix-point over growing std::vectors; no CBMC verdict on 2 symbolic triangles over 4 ids in 1200 s / 6 GB, far below the property\'s own bound (DESIGN.md 5)',
 'C14': 'dedup runs on std::unordered_map (bucket policy out of line in libstdc++, no IR), cleanup/stripifier on constructed CornerTable/Mesh; nothing encodable carries the property (DESIGN.md 5)',
 'C15': 'writers format through snprintf/ostream (libc/libstdc++ without IR) and readers parse that text; whole-file runs cannot be encoded (DESIGN.md 5)',
})
