SETUP = 'sh tools/setup.sh'
HOOKS = {
  'guard': 'GOOGLE_DRACO_VERIF',
  'enable': 'no source hooks are needed: harnesses are compiled with -fno-access-control and set object state directly; the define is passed (-DGOOGLE_DRACO_VERIF=1) to every harness compile but nothing in /repo tests it',
  'baseline_off_cmd': 'cmake --build /repo/_build -j16 && cd /repo/_build && ./draco_tests ; ./draco_factory_tests',
  'source_commits': [],
  'add_only': True,
}
ENGINES = [
  {'name': 'ir2c+cbmc', 'path': 'tools/ir2c.py, tools/vlib.py',
   'serves_properties': ['C01','C02','C03','C04','C05','C06','C07','C08','C09','C10','C11','C12','C13','C16','C17','C18','C19'], 'kind_free_text': 'real draco C++ -> clang++-14 LLVM IR -> own IR-to-C translator -> CBMC 6.11 bounded model checking (SAT/SMT verdict), counterexamples replayed natively'},
]
NOTES = ('Every check is ./vcheck <id> --tier quick|thorough (cwd /verif). Exit 0 = all obligations discharged by the solver within the stated bounds; '
         '1 = counterexample found and replayed against the real code (VIOLATION line); 2 = broken/inconclusive (never reported as success). '
         'See DESIGN.md.')
_T = 'bounded symbolic execution of the real functions (clang IR -> ir2c -> CBMC), solver verdict over all inputs within the stated bounds'
_N = 'Trusted base: clang++-14 lowering, tools/ir2c.py (differentially tested against the g++ build on every run), CBMC 6.11 + SAT back ends, allocation model (fixed-size chunks, allocation never fails), harness preconditions listed per obligation in the evidence. '
CLAIMED = {
 'C01': {
  'text': 'Solver verdicts on the value-coding kernels of the round trip: array zig-zag, delta predictor + wrap transform encoder->stream->decoder for ALL int32 inputs, parallelogram predictor recompute lemma and monolithic encoder->decoder round trip (parallelogram, multi-parallelogram) over an arbitrary in-range corner table; the real sequential connectivity encoder <-> decoder on real Mesh objects for every number of points up to 2^22; the kd-tree signed <-> unsigned conversion between the real encoder and decoder for any int32 values (found and, after the fix, proves the absence of the undecodable-range defect). Whole-geometry round trips (Edgebreaker / kd-tree cores, traversal, option dispatch) are outside the claim.',
  'design_ref': 'DESIGN.md 3/C01', 'technique': _T,
  'note': _N + 'Bounds: <=4 entries, <=2 components, 2 faces. Composition (prediction + transform + entropy coding => values survive) is argued in DESIGN.md, not machine checked.'},
 'C02': {
  'text': 'UB-instrumented bounded model checking (pointer/bounds/overflow/shift checks on every load, store and arithmetic instruction of the real code) of the parsing primitives on arbitrary bytes with symbolic length, from an arbitrary buffer position: DecoderBuffer Decode/Peek/bit mode, DecodeVarint all widths, rANS table parsing, bit decoders; decoder-side kernels for ANY int32 predictions/corrections (wrap and octahedron transforms, parallelogram predictors over an arbitrary table, kd-tree output iterator, kd-tree signed back-transformation on a real attribute). Found and, after the fixes, proves the absence of two signed-overflow defects; two further signed-overflow findings in the tex-coord and geometric-normal predictors (hostile position / UV values) are recorded as known findings (KNOWN-FINDING lines, exit 0). Edgebreaker traversal, kd-tree core and attribute controllers are outside the claim.',
  'design_ref': 'DESIGN.md 3/C02', 'technique': _T + '; non-speculating IR flavour with UB assertions',
  'note': _N + 'Bounds: 8..12 input bytes, recursion/loops unwound with unwinding assertions.'},
 'C03': {
  'text': 'The real MeshSequentialDecoder::DecodeConnectivity is executed symbolically on a real Mesh object for every 6-byte input: success implies every stored face index < num_points. (Found and, after the fix, proves the absence of the missing-range-check defect.) For Edgebreaker, two units of the real MeshEdgebreakerDecoderImpl on real decoder objects: CreateAttributesDecoder never re-binds bound attribute connectivity data and rejects out-of-range slots for every 4-byte header; AssignPointsToCorners, from ANY corner table satisfying the C13 invariants and ANY attribute seams, yields faces with point ids < num_points, no unused point, and a well-defined attribute vertex per point.',
  'design_ref': 'DESIGN.md 3/C03', 'technique': _T,
  'note': _N + 'Bounds: 6 input bytes, <=1 face, raw-index branches; compressed-index path cut. Edgebreaker: 2 faces / 4 vertices / <=1 attribute connectivity; the C13 invariants of the decoded corner table and "a vertex not flagged as hole is interior" are ASSUMED (the symbol-driven connectivity decoding loop itself uses std::unordered_map and is outside the claim, as is the kd-tree decoder).'},
 'C04': {
  'text': 'For each (q, range) of a grid the solver proves the half-step error bound for EVERY float32 value in [0,range] on the real Quantizer/Dequantizer code (IEEE semantics bit-blasted).',
  'design_ref': 'DESIGN.md 3/C04', 'technique': _T + '; floating point bit-blasted by CBMC (kissat)',
  'note': _N + 'Bounds: concrete (q, range) pairs; allowance 4 ulp of the range.'},
 'C07': {
  'text': 'Integer side of octahedral normal quantization proved for symbolic q in 2..30 (coordinates inside the q-bit square, canonical); float->octahedral mapping proved for every finite float32 vector for selected q. The angular error bound itself needs real trigonometry and is outside the claim.',
  'design_ref': 'DESIGN.md 3/C07', 'technique': _T,
  'note': _N + 'Bounds: q concrete for the float obligations.'},
 'C08': {
  'text': 'rANS kernels: final-state serialisation for all states and all precisions, look-up-table correctness, probability-table encode->decode for any valid table, k-symbol end-to-end at a small precision (same template source).',
  'design_ref': 'DESIGN.md 3/C08', 'technique': _T,
  'note': _N + 'Bounds: <=4 symbols in a table, k<=3 symbols end to end at precision 2^4; LUT build cut out of Create and proved separately.'},
 'C10': {
  'text': 'Object-level: the transform description attached to an attribute is bit-identical to the decoder\'s parameters, and applying the re-read description gives bit-identical floats to the ordinary inverse transform (float ops abstracted as uninterpreted functions, sound for equalities). Both decoders: the real SequentialNormalAttributeDecoder attaches the description for every version; the real KdTreeAttributesDecoder creates portable attributes carrying the type / component count / unique id of their attribute, and with EVERY subset of types skipped pairs each float attribute with its OWN portable data, unique id and transform description (found and, after the fix, proves the absence of the unique-id defect).',
  'design_ref': 'DESIGN.md 3/C10', 'technique': _T + '; float arithmetic as uninterpreted functions',
  'note': _N + 'Bounds: 1 value, <=3 components; kd-tree: 2 float attributes, 1 value x 1 component. The option lookup is a table model; option plumbing of Decoder::SetSkipAttributeTransform, the kd-tree core and the legacy (<2.3) kd-tree path are outside the claim.'},
 'C12': {
  'text': '2-safety proof on the real AttributeQuantizationTransform + PointAttribute objects: the decoded value of a point is independent of the other point, for every q and all float inputs; explicit parameters are stored verbatim; the real SequentialQuantizationAttributeEncoder::Init takes them from the options of THIS attribute id whatever the other keys hold.',
  'design_ref': 'DESIGN.md 3/C12', 'technique': _T + '; self-composition, float arithmetic as uninterpreted functions',
  'note': _N + 'Bounds: 2 points x 2 components; 2 attributes, option keys 0..3. The option store (std::map per key) is replaced by a table model (explicit specialisation of 4 accessors). The kd-tree encoder\'s option reads and the Encoder/ExpertEncoder front ends are outside the claim.'},
 'C09': {
  'text': 'Relational obligation on the two real functions the property names: MeshEdgebreakerEncoder::ComputeNumberOfEncodedPoints (encoder-side simulation of the seam handling) and MeshEdgebreakerDecoderImpl::AssignPointsToCorners (what the decoder does) run on the SAME symbolic connectivity - any corner table satisfying the C13 invariants, any attribute corner->vertex map, consistent boundary / seam flags, any compatible corner->point map of the input mesh - and must yield the same number of points. Found a genuine mismatch for input meshes with duplicate points (recorded as a known finding, KNOWN-FINDING line, exit 0) and proves the equality for deduplicated input.',
  'design_ref': 'DESIGN.md 3/C09', 'technique': _T + '; relational (encoder-side count vs decoder-side construction on shared symbolic state), known finding re-proved with its input class excluded',
  'note': _N + 'Bounds: 2 faces / <= 4 vertices / 1 attribute connectivity (2 in the thorough tier). ASSUMED: the decoder reconstructs the encoder\'s connectivity (that is C01 for Edgebreaker, outside the encoded units), the C13 invariants, flags consistent with the connectivity. Outside: face counts, the sequential encoder (counts are the input\'s), point clouds, more than two attribute connectivities, 3 or more faces (no verdict in 50 min).'},
 'C13': {
  'text': 'Inductive decomposition of CornerTable::Init on the real member functions: ComputeOppositeCorners on EVERY triangle list, BreakNonManifoldEdges and ComputeVertexCorners each from ANY state satisfying the previous phase\'s post-condition; asserted: symmetric pairing across a shared oppositely oriented edge of two non-degenerate non-mirrored faces, degenerate faces unlinked, manifold edges connected, every corner maps through the parent relation to its input vertex id, all corners of a vertex lie on the one fan reached from its representative corner; plus the whole Init on two triangles.',
  'design_ref': 'DESIGN.md 3/C13', 'technique': _T + '; inductive (one-phase-from-arbitrary-consistent-state) decomposition',
  'note': _N + 'Bounds: 2 triangles over <= 4 vertex ids (quick), 3 triangles over 5 ids for phases 2 and 3 (thorough) - below the property\'s own bound of 4 triangles over 5 ids; phase 2 can only remove a link from 4 faces on: within the bound it is decided to terminate and to change nothing, its repair logic (where both seeded defects sit, needing 4-5 faces) is beyond the bound (missed). libstdc++ vector growth is replaced by contract models (harness/verif_vecmodel_*.h). MeshAttributeCornerTable::RecomputeVertices is decided for 2 faces; InitFromAttribute and the mesh -> corner table helpers are outside the claim.'},
 'C05': {
  'category': 'translation_validation', 'engine': 'ir2c+cbmc (tv)',
  'text': 'Translation validation: the C translation of 39 format-defining decoder kernels (constants, varints, transforms, rANS/rABS steps and table parsing, version gates, dequantization, predictors) at the pinned revision is frozen under frozen/; every run regenerates the current translation and CBMC proves equal observable results for ALL inputs of each kernel harness. A behavioural edit yields a distinguishing input that is replayed on the compiled kernels.',
  'design_ref': 'DESIGN.md 2.4, 3/C05', 'technique': 'translation validation by bounded model checking: current vs frozen kernel, shared symbolic inputs, uninterpreted-function abstraction of mul/div/float ops',
  'note': _N + 'The frozen side was produced by the same translator. Outside: the order in which whole decoders combine the kernels (Edgebreaker traversal, attribute sequencing).'},
 'C06': {
  'text': 'Self-composition on the real kernels: a decode is unaffected by bytes after the consumed prefix (two buffers equal on the prefix give the same result and consumption); a coder object with an arbitrary history and a buffer with different heap garbage produce byte-identical output.',
  'design_ref': 'DESIGN.md 3/C06', 'technique': _T + '; self-composition (2-safety)',
  'note': _N + 'Bounds: 8..12 byte buffers, <= 2 fields. Whole Encoder/Decoder entry points, Options iteration order and address-space dependence of whole runs are outside the claim.'},
 'C11': {
  'text': 'Metadata framing only: name strings (any bytes, incl. NUL) round-trip through EncodeString/DecodeName, and an entry written the way EncodeMetadata writes it (name, varint size, bytes) with ANY value length incl. 0 is accepted and consumed exactly by DecodeEntry. Found and, after the fix, proves absence of the zero-length-value defect.',
  'design_ref': 'DESIGN.md 3/C11', 'technique': _T,
  'note': _N + 'Bounds: names <= 6 bytes, values <= 3 bytes. Metadata::AddEntryBinary is cut; the tree walk, nesting and std::map objects are outside reach (no verdict in 10 min), as is attribute metadata.'},
 'C16': {
  'text': 'For every obligation the SAT solver proves the round-trip assertion for ALL inputs inside the stated bound (every int32 (min,max,orig,pred) 4-tuple for the wrap transform; every canonical pair for each q for the octahedral transforms), on code regenerated from /repo each run.',
  'design_ref': 'DESIGN.md 3/C16', 'technique': _T,
  'note': _N + 'Bounds: components <= 3; octahedral transforms per concrete q (quick: 6 values, thorough: all 2..30).'},
 'C17': {
  'text': 'Every primitive writer/reader pair proved an exact inverse for all values of its width: zig-zag, varints of all 6 types, scalars, bit regions, direct bit coder with symbolic widths, rABS step from any state (inductive), rANS bit coder.',
  'design_ref': 'DESIGN.md 3/C17', 'technique': _T,
  'note': _N + 'Bounds: bit regions with 2 fields of concrete widths; rABS per probability value; adaptive/folded/symbol bit coders not yet covered.'},
 'C18': {
  'text': 'The operator-new model asserts at every allocation that the size is bounded by a fixed multiple of the (symbolic) stream length; proved for the guards of DirectBitDecoder, RAnsBitDecoder, RAnsSymbolDecoder::Create, the crease-flag count of the constrained multi-parallelogram decoder and the orientation count of the portable tex-coord decoder (bound: stream length + declared corner count; found and, after the fix, proves the absence of the unbounded orientation count).',
  'design_ref': 'DESIGN.md 3/C18', 'technique': _T + '; allocation-size assertion inside the operator-new model',
  'note': _N + 'Bounds: 24..48-byte backing buffer with symbolic length, <= 3 declared corners; guards inside the Edgebreaker decoder, attribute lists, metadata and kd-tree decoders outside the claim.'},
 'C19': {
  'text': 'Sufficient condition: every function reachable from every harness entry of the other properties is scanned for references to mutable globals / local statics; reachability of any reference is decided by CBMC. No shared mutable state => no race or cross-talk under any interleaving.',
  'design_ref': 'DESIGN.md 3/C19', 'technique': 'static scan of the regenerated LLVM IR + CBMC reachability of every mutable-global reference',
  'note': _N + 'Covers only the units encoded by the other checks; whole Encoder/Decoder objects and Options are outside the claim.'},
}
_WIP = 'check not built yet in this revision (work in progress, see DESIGN.md section 3 for the planned obligations)'
NOT_APPLICABLE = {p: _WIP for p in ['C%02d' % i for i in range(1, 21)]}
NOT_APPLICABLE.update({
 'C20': 'KeyframeAnimation is a PointCloud subclass encoded by the sequential point-cloud codec; only LinearSequencer ordering is encodable, which is too thin to decide the property (DESIGN.md 4)',
 'C14': 'attribute-value and point-id deduplication run on std::unordered_map and mesh clean-up on std::unordered_set (bucket / rehash policy is out of line in libstdc++: no IR to encode), and both builders end in those deduplications; the stripifier alone could be driven on a directly constructed corner table but is one of five mechanisms and would not carry the property (DESIGN.md 4)',
 'C15': 'writers format through snprintf/ostream (libc/libstdc++ without IR) and readers parse that text; whole-file runs cannot be encoded (DESIGN.md 4)',
})
