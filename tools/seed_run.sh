#!/bin/bash
# usage: tools/seed_run.sh <seed-name> <property> [vcheck args...]
# Runs a check against a scratch copy of /repo's sources with the seeded change applied (nothing in /repo is touched).
seed=$1; prop=$2; shift 2
d=$(mktemp -d /tmp/seedrun_XXXXXX)
mkdir -p $d && cp -r /repo/src $d/src && (cd $d && patch -s -p1 < /verif/seeded/$seed/patch.diff) || { echo "patch failed"; rm -rf $d; exit 2; }
cd /verif && VERIF_REPO=$d VERIF_BUILD=$d/build ./vcheck $prop "$@"; rc=$?
rm -rf $d
exit $rc
