#!/usr/bin/env python3
"""ir2c: LLVM-14 textual IR -> C translator (subset) used to feed the real draco
code (lowered by clang++-14) to CBMC.  See DESIGN.md section 2.2."""
import re, sys, struct

# ---------------------------------------------------------------- tokenizer
TOK = re.compile(r'''
   (?P<ws>\s+)
 | (?P<cstr>c"(?:[^"\\]|\\[0-9A-Fa-f]{2}|\\\\)*")
 | (?P<qid>[%@]"(?:[^"\\]|\\.)*")
 | (?P<id>[%@][-a-zA-Z$._0-9]+)
 | (?P<comdat>\$(?:"[^"]*"|[-a-zA-Z$._0-9]+))
 | (?P<meta>![-a-zA-Z$._0-9]*)
 | (?P<attrgrp>\#\d+)
 | (?P<hex>0x[KLMHR]?[0-9A-Fa-f]+)
 | (?P<num>-?\d+\.\d*(?:[eE][-+]?\d+)?|-?\d+)
 | (?P<str>"(?:[^"\\]|\\.)*")
 | (?P<word>[a-zA-Z_][a-zA-Z_0-9.]*)
 | (?P<dots>\.\.\.)
 | (?P<p>[(){}\[\]<>,=*:])
''', re.X)

def tokenize(s):
    out = []
    pos = 0
    n = len(s)
    while pos < n:
        if s[pos] == ';':
            break
        m = TOK.match(s, pos)
        if not m:
            raise SyntaxError('tok: %r' % s[pos:pos+40])
        pos = m.end()
        k = m.lastgroup
        if k == 'ws':
            continue
        out.append((k, m.group(k)))
    return out

# ---------------------------------------------------------------- types
class T:
    def __init__(s, k, **kw):
        s.k = k
        s.__dict__.update(kw)
    def __repr__(s):
        return 'T(%s)' % s.k

VOID = T('void'); FLOAT = T('float'); DOUBLE = T('double'); LABEL = T('label'); META = T('metadata')
def INT(b): return T('int', bits=b)
def PTR(p): return T('ptr', to=p)

class Module:
    def __init__(s):
        s.named = {}     # name -> T(struct) (maybe opaque)
        s.globals = {}   # name -> dict
        s.funcs = {}     # name -> Func
        s.decls = {}     # name -> (ret, params, vararg)
        s.order = []

class P:
    """token stream parser"""
    def __init__(s, toks, mod):
        s.t = toks; s.i = 0; s.mod = mod
    def peek(s, o=0):
        return s.t[s.i+o] if s.i+o < len(s.t) else (None, None)
    def next(s):
        x = s.t[s.i]; s.i += 1; return x
    def accept(s, v):
        if s.peek()[1] == v:
            s.i += 1; return True
        return False
    def expect(s, v):
        x = s.next()
        if x[1] != v:
            raise SyntaxError('expected %r got %r at %d: %r' % (v, x, s.i, s.t[max(0,s.i-6):s.i+4]))
    def eof(s): return s.i >= len(s.t)

    def type(s):
        k, v = s.next()
        if k == 'word':
            if v == 'void': t = VOID
            elif v == 'float': t = FLOAT
            elif v == 'double': t = DOUBLE
            elif v == 'label': t = LABEL
            elif v == 'metadata': t = META
            elif v == 'opaque': t = T('opaque')
            elif v == 'ptr': t = PTR(INT(8))
            elif v == 'x86_fp80': t = T('fp80')
            elif re.fullmatch(r'i\d+', v): t = INT(int(v[1:]))
            else: raise SyntaxError('type word %r' % v)
        elif k in ('id', 'qid') and v[0] == '%':
            t = T('named', name=v)
        elif v == '{':
            t = T('struct', fields=s.typelist('}'), packed=False)
        elif v == '<':
            if s.accept('{'):
                f = s.typelist('}'); s.expect('>')
                t = T('struct', fields=f, packed=True)
            else:
                n = int(s.next()[1]); s.expect('x'); e = s.type(); s.expect('>')
                t = T('vector', n=n, elem=e)
        elif v == '[':
            n = int(s.next()[1]); s.expect('x'); e = s.type(); s.expect(']')
            t = T('array', n=n, elem=e)
        else:
            raise SyntaxError('type tok %r %r' % (k, v))
        while True:
            if s.accept('*'):
                t = PTR(t)
            elif s.peek()[1] == '(' :
                # function type
                s.next()
                ps = []; va = False
                while not s.accept(')'):
                    if s.peek()[0] == 'dots':
                        s.next(); va = True
                    else:
                        ps.append(s.type())
                        s.skip_param_attrs()
                    s.accept(',')
                t = T('func', ret=t, params=ps, vararg=va)
            elif s.peek()[1] == 'addrspace':
                s.next(); s.expect('('); s.next(); s.expect(')')
            else:
                break
        return t

    def typelist(s, close):
        r = []
        while not s.accept(close):
            r.append(s.type())
            s.accept(',')
        return r

    PATTR = {'noundef','nonnull','nocapture','readonly','readnone','writeonly','noalias','zeroext','signext',
             'returned','immarg','inreg','nest','swiftself','nofree','inalloca'}
    def skip_param_attrs(s):
        """returns dict of interesting attrs"""
        a = {}
        while True:
            k, v = s.peek()
            if k == 'word' and v in s.PATTR:
                s.next(); a[v] = True
            elif k == 'word' and v in ('align',):
                s.next(); s.next()
            elif k == 'word' and v in ('dereferenceable', 'dereferenceable_or_null'):
                s.next(); s.expect('('); s.next(); s.expect(')')
            elif k == 'word' and v in ('byval', 'sret', 'byref', 'preallocated', 'elementtype'):
                s.next(); s.expect('('); a[v] = s.type(); s.expect(')')
            else:
                return a

    # ---- constants / values; returns a Val
    def value(s, ty):
        k, v = s.next()
        if k in ('id', 'qid'):
            if v[0] == '%': return ('local', v, ty)
            return ('global', v, ty)
        if k == 'num':
            if ty.k in ('float', 'double'):
                return ('fconst', float(v), ty)
            return ('int', int(v), ty)
        if k == 'hex':
            if ty.k in ('float', 'double'):
                bits = int(v[2:], 16)
                return ('fconst', struct.unpack('<d', struct.pack('<Q', bits))[0], ty)
            raise SyntaxError('hex for non-fp')
        if k == 'word':
            if v == 'true': return ('int', 1, ty)
            if v == 'false': return ('int', 0, ty)
            if v == 'null': return ('null', None, ty)
            if v in ('undef', 'poison'): return ('undef', None, ty)
            if v == 'zeroinitializer': return ('zero', None, ty)
            if v in ('getelementptr',):
                inb = s.accept('inbounds')
                s.expect('(')
                bt = s.type(); s.expect(',')
                pt = s.type(); base = s.value(pt)
                idx = []
                while s.accept(','):
                    s.accept('inrange')
                    it = s.type(); idx.append(s.value(it))
                s.expect(')')
                return ('cgep', (bt, base, idx), ty)
            if v in ('bitcast', 'ptrtoint', 'inttoptr', 'trunc', 'zext', 'sext', 'addrspacecast'):
                s.expect('(')
                ft = s.type(); val = s.value(ft); s.expect('to'); tt = s.type(); s.expect(')')
                return ('ccast', (v, val, tt), ty)
            if v in ('add', 'sub', 'mul', 'and', 'or', 'xor', 'shl', 'lshr', 'ashr'):
                while s.peek()[1] in ('nuw', 'nsw', 'exact'): s.next()
                s.expect('(')
                t1 = s.type(); a = s.value(t1); s.expect(',')
                t2 = s.type(); b = s.value(t2); s.expect(')')
                return ('cbin', (v, a, b), ty)
        if k == 'cstr':
            return ('cstr', decode_cstr(v), ty)
        if v == '[':
            elems = []
            while not s.accept(']'):
                et = s.type(); elems.append(s.value(et)); s.accept(',')
            return ('agg', elems, ty)
        if v == '{':
            elems = []
            while not s.accept('}'):
                et = s.type(); elems.append(s.value(et)); s.accept(',')
            return ('agg', elems, ty)
        if v == '<':
            if s.accept('{'):
                elems = []
                while not s.accept('}'):
                    et = s.type(); elems.append(s.value(et)); s.accept(',')
                s.expect('>')
                return ('agg', elems, ty)
            elems = []
            while not s.accept('>'):
                et = s.type(); elems.append(s.value(et)); s.accept(',')
            return ('agg', elems, ty)
        raise SyntaxError('value %r %r' % (k, v))

    def tvalue(s):
        t = s.type()
        s.skip_param_attrs()
        return s.value(t)

def decode_cstr(v):
    body = v[2:-1]
    out = bytearray()
    i = 0
    while i < len(body):
        c = body[i]
        if c == '\\':
            if body[i+1] == '\\':
                out.append(92); i += 2
            else:
                out.append(int(body[i+1:i+3], 16)); i += 3
        else:
            out.append(ord(c)); i += 1
    return bytes(out)

# ---------------------------------------------------------------- layout
class Layout:
    def __init__(s, mod): s.mod = mod; s.cache = {}
    def res(s, t):
        while t.k == 'named':
            t = s.mod.named[t.name]
        return t
    def size_align(s, t):
        t = s.res(t)
        k = t.k
        if k == 'int':
            b = t.bits
            if b <= 8: return 1, 1
            if b <= 16: return 2, 2
            if b <= 32: return 4, 4
            if b <= 64: return 8, 8
            if b <= 128: return 16, 16
            raise ValueError('int bits %d' % b)
        if k == 'float': return 4, 4
        if k == 'double': return 8, 8
        if k == 'fp80': return 16, 16
        if k == 'ptr': return 8, 8
        if k == 'array':
            es, ea = s.size_align(t.elem)
            return es * t.n, ea
        if k == 'vector':
            es, ea = s.size_align(t.elem)
            sz = es * t.n
            return sz, sz
        if k == 'struct':
            key = s.skey(t)      # structural key (object ids are reused after garbage collection)
            if key in s.cache: return s.cache[key][0], s.cache[key][1]
            off = 0; al = 1; offs = []
            for f in t.fields:
                fs, fa = s.size_align(f)
                if t.packed: fa = 1
                off = (off + fa - 1) // fa * fa
                offs.append(off)
                off += fs
                al = max(al, fa)
            off = (off + al - 1) // al * al
            s.cache[key] = (off, al, offs)
            return off, al
        if k == 'opaque':
            return 0, 1
        raise ValueError('size of %s' % k)
    def field_off(s, t, i):
        t = s.res(t)
        s.size_align(t)
        return s.cache[s.skey(t)][2][i]

    def skey(s, t):
        t = s.res(t)
        k = t.k
        if k == 'int': return 'i%d' % t.bits
        if k in ('float', 'double', 'void', 'fp80', 'opaque', 'label', 'metadata'): return k
        if k == 'ptr': return 'p'
        if k == 'func': return 'f'
        if k == 'struct': return ('P(' if t.packed else 'S(') + ','.join(s.skey(f) for f in t.fields) + ')'
        if k == 'array': return 'A%d(%s)' % (t.n, s.skey(t.elem))
        if k == 'vector': return 'V%d(%s)' % (t.n, s.skey(t.elem))
        raise ValueError('skey %s' % k)

# ---------------------------------------------------------------- module parse
class Func:
    pass

ALIAS = re.compile(r'^(@(?:"[^"]*"|[-a-zA-Z$._0-9]+)) = .*\balias\b.*?(@(?:"[^"]*"|[-a-zA-Z$._0-9]+))\s*$')
REFX = re.compile(r'@(?:"[^"]*"|[-a-zA-Z$._0-9]+)')

def parse_module(text):
    mod = Module()
    lines = text.split('\n')
    # aliases (e.g. complete-object constructor C1 = base-object constructor C2) are resolved textually
    al = {}
    for ln in lines:
        if ln.startswith('@') and ' alias ' in ln:
            m = ALIAS.match(ln)
            if m: al[m.group(1)] = m.group(2)
    if al:
        def res(m):
            n = m.group(0)
            k = 0
            while n in al and k < 8: n = al[n]; k += 1
            return n
        lines = [l if (l.startswith('@') and ' alias ' in l) else REFX.sub(res, l) for l in lines]
    i = 0
    n = len(lines)
    while i < n:
        ln = lines[i]
        if not ln.strip() or ln.startswith(';') or ln.startswith('source_filename') or ln.startswith('target') \
           or ln.startswith('attributes') or ln.startswith('!') or ln.startswith('$'):
            i += 1; continue
        if ln.startswith('%') and ' = type ' in ln:
            toks = tokenize(ln)
            p = P(toks, mod)
            name = p.next()[1]; p.expect('='); p.expect('type')
            mod.named[name] = p.type()
            i += 1; continue
        if ln.startswith('@'):
            toks = tokenize(ln)
            p = P(toks, mod)
            name = p.next()[1]; p.expect('=')
            g = {'name': name, 'const': False, 'init': None, 'external': False, 'text': ln}
            while True:
                k, v = p.peek()
                if v in ('private', 'internal', 'dso_local', 'unnamed_addr', 'local_unnamed_addr', 'linkonce_odr',
                         'weak_odr', 'hidden', 'available_externally', 'weak', 'common', 'thread_local', 'appending',
                         'linkonce', 'default', 'protected'):
                    p.next()
                elif v in ('external', 'extern_weak'):
                    p.next(); g['external'] = True
                elif v == 'constant':
                    p.next(); g['const'] = True; break
                elif v == 'global':
                    p.next(); break
                elif v == 'alias':
                    g = None; break
                else:
                    raise SyntaxError('global hdr %r in %s' % (v, ln[:80]))
            if g is None:
                i += 1; continue
            g['type'] = p.type()
            if not g['external']:
                g['init'] = p.value(g['type'])
            mod.globals[name] = g
            i += 1; continue
        if ln.startswith('declare'):
            toks = tokenize(ln)
            p = P(toks, mod)
            p.next()
            f = parse_fn_header(p, mod)
            mod.decls[f.name] = f
            i += 1; continue
        if ln.startswith('define'):
            toks = tokenize(ln)
            p = P(toks, mod)
            p.next()
            f = parse_fn_header(p, mod)
            i += 1
            blocks = []
            cur = None
            while lines[i] != '}':
                l = lines[i]
                i += 1
                if not l.strip(): continue
                m = re.match(r'^([-a-zA-Z$._0-9]+|"[^"]*"):', l)
                if m:
                    cur = {'name': '%' + m.group(1), 'ins': []}
                    blocks.append(cur); continue
                if cur is None:
                    cur = {'name': '%entry_', 'ins': []}; blocks.append(cur)
                # switch spans lines
                if l.lstrip().startswith('switch') and l.rstrip().endswith('['):
                    while not lines[i].strip().startswith(']'):
                        l += ' ' + lines[i].strip(); i += 1
                    l += ' ]'; i += 1
                cur['ins'].append(l)
            f.blocks = blocks
            mod.funcs[f.name] = f
            mod.order.append(f.name)
            i += 1; continue
        raise SyntaxError('top-level: %s' % ln[:100])
    return mod

FN_SKIP = {'dso_local', 'internal', 'linkonce_odr', 'weak_odr', 'hidden', 'noundef', 'zeroext', 'signext', 'nonnull',
           'noalias', 'private', 'weak', 'fastcc', 'available_externally', 'external', 'linkonce', 'unnamed_addr',
           'local_unnamed_addr', 'protected', 'default', 'ccc', 'coldcc'}

def parse_fn_header(p, mod):
    f = Func()
    while True:
        k, v = p.peek()
        if k == 'word' and v in FN_SKIP:
            p.next()
        elif k == 'word' and v in ('align',):
            p.next(); p.next()
        elif k == 'word' and v in ('dereferenceable', 'dereferenceable_or_null'):
            p.next(); p.expect('('); p.next(); p.expect(')')
        else:
            break
    f.ret = p.type()
    f.name = p.next()[1]
    p.expect('(')
    f.params = []
    f.vararg = False
    idx = 0
    while not p.accept(')'):
        if p.peek()[0] == 'dots':
            p.next(); f.vararg = True
        else:
            t = p.type()
            a = p.skip_param_attrs()
            nm = None
            if p.peek()[0] in ('id', 'qid'):
                nm = p.next()[1]
            else:
                nm = '%' + str(idx)
            f.params.append((t, nm, a))
            idx += 1
        p.accept(',')
    f.blocks = None
    return f

# ---------------------------------------------------------------- C emission
def cid(name):
    """LLVM identifier -> C identifier"""
    s = name
    if s[0] in '%@': s = s[1:]
    if s.startswith('"'): s = s[1:-1]
    s = re.sub(r'[^A-Za-z0-9_]', lambda m: '_%02x' % ord(m.group(0)), s)
    return s

class Emitter:
    def __init__(s, mod, ub=True, globals_check=True, stubs=None, uf_float=False, uf_int=False):
        s.uf_float = uf_float; s.uf_int = uf_int
        s.mod = mod; s.L = Layout(mod); s.ub = ub
        s.globals_check = globals_check
        s.stubs = stubs or {}
        s.cur_fn = None
        s.mut_hits = set()
        s.out = []
        s.aggtypes = {}   # key -> cname
        s.aggdefs = []
        s.structnames = {}
        s.fnptr_cache = {}

    # --- C type for SSA values
    def cty(s, t):
        t0 = t
        t = s.L.res(t)
        k = t.k
        if k == 'int':
            b = t.bits
            if b <= 8: return 'uint8_t'
            if b <= 16: return 'uint16_t'
            if b <= 32: return 'uint32_t'
            if b <= 64: return 'uint64_t'
            if b <= 128: return 'unsigned __int128'
        if k == 'float': return 'float'
        if k == 'double': return 'double'
        if k == 'ptr': return 'uint8_t*'
        if k == 'void': return 'void'
        if k in ('struct', 'array', 'vector'):
            return s.aggty(t0)
        raise ValueError('cty %s' % k)

    def tkey(s, t):
        t = s.L.res(t)
        k = t.k
        if k == 'int': return 'i%d' % t.bits
        if k in ('float', 'double', 'void'): return k
        if k == 'ptr': return 'p'
        if k == 'struct': return ('P' if t.packed else 'S') + '(' + ','.join(s.tkey(f) for f in t.fields) + ')'
        if k == 'array': return 'A%d(%s)' % (t.n, s.tkey(t.elem))
        if k == 'vector': return 'V%d(%s)' % (t.n, s.tkey(t.elem))
        if k == 'opaque': return 'O'
        raise ValueError(k)

    def aggty(s, t):
        key = s.tkey(t)
        if key in s.aggtypes: return s.aggtypes[key]
        r = s.L.res(t)
        nm = 'agg%d' % len(s.aggtypes)
        s.aggtypes[key] = 'struct ' + nm
        if r.k == 'struct':
            fl = ''.join('  %s f%d;\n' % (s.cty(f), i) if s.L.res(f).k != 'array' or True else '' for i, f in enumerate(r.fields))
            if not r.fields: fl = '  uint8_t empty_;\n' if False else ''
            attr = ' __attribute__((packed))' if r.packed else ''
            sz, al = s.L.size_align(r)
            d = 'struct %s {\n%s}%s;\n' % (nm, fl, attr)
            if sz > 0:
                d += '_Static_assert(sizeof(struct %s)==%d, "layout %s");\n' % (nm, sz, nm)
        elif r.k in ('array', 'vector'):
            sz, al = s.L.size_align(r)
            d = 'struct %s { %s e[%d]; };\n' % (nm, s.cty(r.elem), max(r.n, 1))
            if r.n > 0:
                d += '_Static_assert(sizeof(struct %s)==%d, "layout %s");\n' % (nm, sz, nm)
        s.aggdefs.append(d)
        return 'struct ' + nm

    def fnptr_type(s, ret, params, vararg):
        ps = ', '.join(s.cty(p) for p in params) or 'void'
        if vararg: ps += ', ...'
        return '%s (*)(%s)' % (s.cty(ret), ps)

    # --- constant initializers for globals (typed C initializer)
    def cinit(s, v, t):
        kind, val, ty = v
        r = s.L.res(t)
        if kind == 'zero' or kind == 'undef':
            if r.k in ('struct', 'array', 'vector'): return '{0}'
            return '0'
        if kind == 'int': return s.intlit(val, r)
        if kind == 'fconst': return s.flit(val, r)
        if kind == 'null': return '0'
        if kind == 'cstr':
            return '{{' + ','.join(str(b) for b in val) + '}}'
        if kind == 'agg':
            if r.k == 'struct':
                return '{' + ','.join(s.cinit(e, f) for e, f in zip(val, r.fields)) + '}'
            return '{{' + ','.join(s.cinit(e, r.elem) for e in val) + '}}'
        if kind in ('global', 'cgep', 'ccast', 'cbin'):
            return s.val(v)
        raise ValueError('cinit %s' % kind)

    def intlit(s, val, r):
        b = r.bits
        val &= (1 << b) - 1
        if b <= 32: return '%dU' % val
        return '%dULL' % val

    def flit(s, val, r):
        if val != val: return '(0.0/0.0)'
        if val in (float('inf'), float('-inf')): return ('-' if val < 0 else '') + '(1.0/0.0)'
        if r.k == 'float':
            return '%sf' % float.hex(val) if False else ('((float)%s)' % float.hex(val))
        return float.hex(val)

    # --- value expression
    def val(s, v):
        kind, val, ty = v
        r = s.L.res(ty)
        if kind == 'local': return s.lname(val)
        if kind == 'global':
            if val in s.mod.funcs or val in s.mod.decls:
                return '((uint8_t*)%s)' % s.fname(val)
            s.note_global(val)
            return '((uint8_t*)&%s)' % ('g_' + cid(val))
        if kind == 'int': return '((%s)%s)' % (s.cty(ty), s.intlit(val, r))
        if kind == 'fconst': return s.flit(val, r)
        if kind == 'null': return '((uint8_t*)0)'
        if kind in ('undef', 'zero'):
            if r.k in ('struct', 'array', 'vector'):
                return '((%s){0})' % s.cty(ty)
            if r.k == 'ptr': return '((uint8_t*)0)'
            return '((%s)0)' % s.cty(ty)
        if kind == 'cgep':
            bt, base, idx = val
            return s.gep_expr(bt, s.val(base), idx)
        if kind == 'ccast':
            op, x, tt = val
            return s.cast_expr(op, x, tt)
        if kind == 'cbin':
            op, a, b = val
            cop = {'add': '+', 'sub': '-', 'mul': '*', 'and': '&', 'or': '|', 'xor': '^', 'shl': '<<', 'lshr': '>>'}[op]
            return '((%s)(%s %s %s))' % (s.cty(ty), s.val(a), cop, s.val(b))
        if kind == 'agg':
            # first-class aggregate constant
            if r.k == 'struct':
                return '((%s){%s})' % (s.cty(ty), ','.join(s.val(e) for e in val))
            return '((%s){{%s}})' % (s.cty(ty), ','.join(s.val(e) for e in val))
        raise ValueError('val %s' % kind)

    def lname(s, n):
        return 'v_' + cid(n)

    def fname(s, name):
        nm = name[1:].strip('"') if name[0] == '@' else name
        if name in s.mod.decls and name not in s.mod.funcs and nm not in PRELUDE_DEFINED and nm not in HARNESS_API:
            return 'ext_' + cid(name)
        return cid(name)

    def is_mutable_global(s, name):
        g = s.mod.globals.get(name)
        if g is None: return False
        if g['const']: return False
        nm = name[1:].strip('"')
        if nm.startswith('verif_'): return False      # harness-owned state
        return True

    def note_global(s, name):
        if s.cur_fn is not None and s.is_mutable_global(name):
            s.cur_mut.add(name)

    def gep_expr(s, bt, base, idx):
        """byte-offset pointer arithmetic"""
        terms = []
        const = 0
        cur = bt
        first = True
        for iv in idx:
            if first:
                sz, _ = s.L.size_align(cur)
                stride = sz; first = False
                nxt = cur
            else:
                r = s.L.res(cur)
                if r.k == 'struct':
                    assert iv[0] == 'int', 'struct index must be const'
                    const += s.L.field_off(r, iv[1])
                    cur = r.fields[iv[1]]
                    continue
                elif r.k in ('array', 'vector'):
                    stride, _ = s.L.size_align(r.elem)
                    nxt = r.elem
                else:
                    raise ValueError('gep into %s' % r.k)
            if iv[0] == 'int':
                v = iv[1]
                b = s.L.res(iv[2]).bits
                if v >= 1 << (b - 1): v -= 1 << b
                const += v * stride
            else:
                b = s.L.res(iv[2]).bits
                e = s.val(iv)
                terms.append('(int64_t)(int%d_t)%s * %dLL' % (b, e, stride) if b in (8, 16, 32, 64) else '(int64_t)%s * %dLL' % (e, stride))
            cur = nxt
        e = base
        off = ' + '.join(terms + ([str(const) + 'LL'] if const or not terms else []))
        return '(%s + (%s))' % (e, off)

    def cast_expr(s, op, x, tt):
        ft = s.L.res(x[2]); rt = s.L.res(tt)
        xv = s.val(x)
        if op in ('bitcast', 'addrspacecast'):
            if ft.k == 'ptr' and rt.k == 'ptr': return xv
            if ft.k == 'int' and rt.k == 'float': return 'bc_i2f(%s)' % xv
            if ft.k == 'float' and rt.k == 'int': return 'bc_f2i(%s)' % xv
            if ft.k == 'int' and rt.k == 'double': return 'bc_i2d(%s)' % xv
            if ft.k == 'double' and rt.k == 'int': return 'bc_d2i(%s)' % xv
            raise ValueError('bitcast %s->%s' % (ft.k, rt.k))
        if op == 'ptrtoint':
            return '((%s)(uint64_t)%s)' % (s.cty(tt), xv)
        if op == 'inttoptr':
            return '((uint8_t*)(uint64_t)%s)' % xv
        if op == 'trunc':
            return s.mask('((%s)%s)' % (s.cty(tt), xv), rt.bits)
        if op == 'zext':
            return '((%s)%s)' % (s.cty(tt), xv)
        if op == 'sext':
            return s.sext(xv, ft.bits, tt)
        raise ValueError(op)

    def mask(s, e, bits):
        if bits in (8, 16, 32, 64, 128): return e
        return '(%s & %dULL)' % (e, (1 << bits) - 1)

    def sx(s, e, bits):
        """expression as signed C integer of its width"""
        if bits in (8, 16, 32, 64):
            return '((int%d_t)%s)' % (bits, e)
        if bits == 1:
            return '((int8_t)(-(int8_t)(%s & 1)))' % e
        # generic: shift up/down in 64
        return '((int64_t)((uint64_t)%s << %d) >> %d)' % (e, 64 - bits, 64 - bits)

    def sext(s, xv, fbits, tt):
        rt = s.L.res(tt)
        return s.mask('((%s)%s)' % (s.cty(tt), s.sx(xv, fbits)), rt.bits)

    # ------------------------------------------------------------ functions
    def proto(s, f, name=None):
        ps = ', '.join('%s %s' % (s.cty(t), s.lname(n)) for t, n, a in f.params) or 'void'
        if f.vararg: ps += ', ...'
        return '%s %s(%s)' % (s.cty(f.ret), name or s.fname(f.name), ps)

    def emit_function(s, f):
        o = []
        L = s.L
        # pass 1: parse instructions
        blocks = []
        for b in f.blocks:
            ins = []
            for l in b['ins']:
                try:
                    ins.append(s.parse_ins(l))
                except Exception as e:
                    raise RuntimeError('in %s: %s\n  %s' % (f.name, e, l))
            blocks.append((b['name'], ins))
        # entry block label: the implicit number
        if blocks[0][0] == '%entry_':
            blocks[0] = ('%' + str(len(f.params)), blocks[0][1])
        blocks = s.rpo(blocks)
        # declare locals
        decls = []
        phis = {}  # block -> list of (dest, ty, [(val, pred)])
        for bn, ins in blocks:
            for I in ins:
                if I.get('dest') and I['op'] != 'alloca':
                    decls.append('  %s %s;' % (s.cty(I['ty']), s.lname(I['dest'])))
                if I['op'] == 'phi':
                    phis.setdefault(bn, []).append(I)
                    decls.append('  %s %s_t;' % (s.cty(I['ty']), s.lname(I['dest'])))
        s.defs = {}
        for bn, ins in blocks:
            for I in ins:
                if I.get('dest'): s.defs[I['dest']] = I
        o.append(s.proto(f) + ' {')
        o.extend(decls)
        def jump(frm, to):
            r = []
            ps = phis.get(to, [])
            for I in ps:
                for v, pred in I['inc']:
                    if pred == frm:
                        r.append('%s_t = %s;' % (s.lname(I['dest']), s.val(v)))
                        break
                else:
                    raise RuntimeError('phi missing pred %s in %s' % (frm, to))
            for I in ps:
                r.append('%s = %s_t;' % (s.lname(I['dest']), s.lname(I['dest'])))
            r.append('goto L%s;' % cid(to))
            return ' '.join(r)
        s.cur_fn = f.name
        for bn, ins in blocks:
            o.append(' L%s: ;' % cid(bn))
            for I in ins:
                s.cur_mut = set()
                tmp = []
                s.emit_ins(I, tmp, bn, jump, f)
                if s.cur_mut and s.globals_check:
                    for gname in sorted(s.cur_mut):
                        s.mut_hits.add((f.name, gname))
                        o.append('  VERIF_GLOBAL(0, "SHARED-STATE: %s references mutable global %s");' %
                                 (cid(f.name)[:60], cid(gname)[:80]))
                o.extend(tmp)
        s.cur_fn = None
        o.append('}')
        return '\n'.join(o)

    def rpo(s, blocks):
        """reverse post-order of the CFG: every backward goto in the emitted C is then a genuine loop back-edge
        (CBMC identifies loops by backward jumps; LLVM's block layout after loop rotation is not always topological)"""
        succ = {}
        for bn, ins in blocks:
            t = ins[-1] if ins else None
            out = []
            if t is not None:
                if t['op'] == 'br':
                    out = [t['uncond']] if 'uncond' in t else [t['t'], t['f']]
                elif t['op'] == 'switch':
                    out = [t['default']] + [lab for _, lab in t['cases']]
            succ[bn] = out
        order = []; seen = set()
        entry = blocks[0][0]
        # iterative DFS, successors visited in reverse so that the first successor comes first in RPO
        stack = [(entry, iter(reversed(succ.get(entry, []))))]
        seen.add(entry)
        while stack:
            n, it = stack[-1]
            adv = False
            for m in it:
                if m not in seen and m in succ:
                    seen.add(m); stack.append((m, iter(reversed(succ[m])))); adv = True; break
            if not adv:
                order.append(n); stack.pop()
        order.reverse()
        bm = dict(blocks)
        res = [(n, bm[n]) for n in order]
        # unreachable blocks are dropped (they may still be phi sources: keep them at the end)
        for bn, ins in blocks:
            if bn not in seen: res.append((bn, ins))
        return res

    BINOPS = {'add', 'sub', 'mul', 'udiv', 'sdiv', 'urem', 'srem', 'shl', 'lshr', 'ashr', 'and', 'or', 'xor',
              'fadd', 'fsub', 'fmul', 'fdiv', 'frem'}
    CASTS = {'trunc', 'zext', 'sext', 'fptoui', 'fptosi', 'uitofp', 'sitofp', 'fptrunc', 'fpext', 'ptrtoint',
             'inttoptr', 'bitcast', 'addrspacecast'}
    FMF = {'fast', 'nnan', 'ninf', 'nsz', 'arcp', 'contract', 'afn', 'reassoc'}

    def parse_ins(s, line):
        toks = tokenize(line)
        p = P(toks, s.mod)
        I = {'line': line.strip()}
        if p.peek(1)[1] == '=' and p.peek()[0] in ('id', 'qid'):
            I['dest'] = p.next()[1]; p.next()
        k, op = p.next()
        if op == 'tail' or op == 'musttail' or op == 'notail':
            k, op = p.next()
        I['op'] = op
        if op in s.BINOPS:
            flags = set()
            while p.peek()[1] in ('nuw', 'nsw', 'exact') or p.peek()[1] in s.FMF:
                flags.add(p.next()[1])
            t = p.type(); a = p.value(t); p.expect(','); b = p.value(t)
            I.update(ty=t, a=a, b=b, flags=flags)
        elif op == 'fneg':
            while p.peek()[1] in s.FMF: p.next()
            t = p.type(); a = p.value(t)
            I.update(ty=t, a=a)
        elif op in ('icmp', 'fcmp'):
            while p.peek()[1] in s.FMF: p.next()
            pred = p.next()[1]
            t = p.type(); a = p.value(t); p.expect(','); b = p.value(t)
            rt = INT(1)
            if s.L.res(t).k == 'vector': raise ValueError('vector cmp')
            I.update(ty=rt, pred=pred, a=a, b=b, opty=t)
        elif op in s.CASTS:
            t = p.type(); a = p.value(t); p.expect('to'); tt = p.type()
            I.update(ty=tt, a=a)
        elif op == 'select':
            while p.peek()[1] in s.FMF: p.next()
            ct = p.type(); c = p.value(ct); p.expect(',')
            t = p.type(); a = p.value(t); p.expect(',')
            t2 = p.type(); b = p.value(t2)
            I.update(ty=t, c=c, a=a, b=b)
        elif op == 'phi':
            while p.peek()[1] in s.FMF: p.next()
            t = p.type()
            inc = []
            while True:
                p.expect('[')
                v = p.value(t); p.expect(',')
                lab = p.next()[1]
                p.expect(']')
                inc.append((v, lab))
                if not p.accept(','): break
            I.update(ty=t, inc=inc)
        elif op == 'load':
            p.accept('volatile')
            t = p.type(); p.expect(',')
            pt = p.type(); a = p.value(pt)
            I.update(ty=t, a=a)
        elif op == 'store':
            p.accept('volatile')
            t = p.type(); v = p.value(t); p.expect(',')
            pt = p.type(); a = p.value(pt)
            I.update(ty=t, v=v, a=a)
        elif op == 'alloca':
            t = p.type()
            cnt = None
            if p.accept(','):
                if p.peek()[1] != 'align':
                    ct = p.type(); cnt = p.value(ct)
            I.update(ty=PTR(t), aty=t, cnt=cnt)
        elif op == 'getelementptr':
            p.accept('inbounds')
            bt = p.type(); p.expect(',')
            pt = p.type(); base = p.value(pt)
            idx = []
            while p.accept(','):
                it = p.type(); idx.append(p.value(it))
            I.update(ty=PTR(INT(8)), bt=bt, base=base, idx=idx)
        elif op == 'br':
            if p.peek()[1] == 'label':
                p.next(); I.update(uncond=p.next()[1])
            else:
                t = p.type(); c = p.value(t); p.expect(','); p.expect('label'); a = p.next()[1]
                p.expect(','); p.expect('label'); b = p.next()[1]
                I.update(c=c, t=a, f=b)
        elif op == 'switch':
            t = p.type(); v = p.value(t); p.expect(','); p.expect('label'); d = p.next()[1]
            p.expect('[')
            cases = []
            while not p.accept(']'):
                ct = p.type(); cv = p.value(ct); p.expect(','); p.expect('label'); cases.append((cv, p.next()[1]))
            I.update(v=v, default=d, cases=cases)
        elif op == 'ret':
            t = p.type()
            I.update(rty=t, v=None if t.k == 'void' else p.value(t))
        elif op == 'unreachable':
            pass
        elif op in ('call', 'invoke'):
            while True:
                w = p.peek()[1]
                if w in s.FMF or w in FN_SKIP: p.next()
                elif w in ('dereferenceable', 'dereferenceable_or_null'):
                    p.next(); p.expect('('); p.next(); p.expect(')')
                elif w == 'align':
                    p.next(); p.next()
                else: break
            rt = p.type()
            # rt may be full function type (for varargs): "i32 (i8*, ...) @printf"
            fnty = None
            if s.L.res(rt).k == 'func' if rt.k != 'named' else False:
                fnty = rt; rt = rt.ret
            callee = p.next()
            if callee[1] in ('bitcast',):
                raise ValueError('call through constexpr cast')
            p.expect('(')
            args = []
            while not p.accept(')'):
                at = p.type()
                p.skip_param_attrs()
                if at.k == 'metadata':
                    # skip metadata operand
                    while p.peek()[1] not in (',', ')'): p.next()
                    args.append(None)
                else:
                    args.append(p.value(at))
                p.accept(',')
            I.update(ty=rt, callee=callee, args=args, fnty=fnty)
            if op == 'invoke':
                raise ValueError('invoke unsupported (compile with -fno-exceptions)')
        elif op == 'extractvalue':
            t = p.type(); a = p.value(t)
            idx = []
            while p.accept(','):
                idx.append(int(p.next()[1]))
            cur = t
            for i in idx:
                r = s.L.res(cur)
                cur = r.fields[i] if r.k == 'struct' else r.elem
            I.update(ty=cur, a=a, idx=idx, aty=t)
        elif op == 'insertvalue':
            t = p.type(); a = p.value(t); p.expect(',')
            vt = p.type(); v = p.value(vt)
            idx = []
            while p.accept(','):
                idx.append(int(p.next()[1]))
            I.update(ty=t, a=a, v=v, idx=idx)
        elif op == 'freeze':
            t = p.type(); a = p.value(t)
            I.update(ty=t, a=a)
        else:
            raise ValueError('unsupported op %s' % op)
        return I

    def ubassert(s, o, cond, msg):
        if s.ub:
            o.append('  VERIF_UB(%s, "UB: %s");' % (cond, msg))

    def emit_ins(s, I, o, bn, jump, f):
        op = I['op']
        L = s.L
        d = s.lname(I['dest']) if I.get('dest') else None
        if op in s.BINOPS:
            r = L.res(I['ty'])
            a = s.val(I['a']); b = s.val(I['b'])
            ct = s.cty(I['ty'])
            if r.k in ('float', 'double'):
                cop = {'fadd': '+', 'fsub': '-', 'fmul': '*', 'fdiv': '/'}.get(op)
                if cop is None: raise ValueError('frem')
                if s.uf_float:
                    o.append('  %s = VERIF_F%s(%s, %s);' % (d, op.upper() + ('32' if r.k == 'float' else '64'), a, b)); return
                o.append('  %s = %s %s %s;' % (d, a, cop, b)); return
            bits = r.bits
            fl = I['flags']
            if op == 'sub' and bits == 64 and I['a'][0] == 'local' and I['b'][0] == 'local':
                # pointer difference: keep it foldable for CBMC when both pointers are in the same object
                da = s.defs.get(I['a'][1]); db = s.defs.get(I['b'][1])
                if da and db and da['op'] == 'ptrtoint' and db['op'] == 'ptrtoint':
                    o.append('  %s = VERIF_PTRDIFF(%s, %s);' % (d, s.val(da['a']), s.val(db['a'])))
                    return
            def from_ptr(v):
                if v[0] != 'local': return False
                dd = s.defs.get(v[1])
                return bool(dd) and dd['op'] in ('ptrtoint', 'phi', 'select') and (dd['op'] == 'ptrtoint' or L.res(dd['ty']).bits == 64 and any(
                    (x[0] == 'local' and (s.defs.get(x[1]) or {}).get('op') == 'ptrtoint') for x in ([i[0] for i in dd.get('inc', [])] + [dd.get('a'), dd.get('b')]) if x))
            if s.uf_int == 'all' and op in ('add', 'sub', 'shl', 'lshr', 'ashr') and bits in (32, 64) and I['a'][0] != 'int' and I['b'][0] != 'int' \
               and not from_ptr(I['a']) and not from_ptr(I['b']):
                if op in ('shl', 'lshr', 'ashr'): s.ubassert(o, '%s < %d' % (b, bits), 'shift amount >= width')
                o.append('  %s = VERIF_IUF(%s%d, %s, %s);' % (d, op, bits, a, b)); return
            if s.uf_int and op in ('mul', 'udiv', 'urem', 'sdiv', 'srem') and bits in (32, 64) and I['a'][0] != 'int' and I['b'][0] != 'int':
                if op in ('udiv', 'urem', 'sdiv', 'srem'):
                    s.ubassert(o, '%s != 0' % b, 'division by zero')
                o.append('  %s = VERIF_I%s%d(%s, %s);' % (d, op.upper(), bits, a, b)); return
            if op in ('add', 'sub', 'mul'):
                cop = {'add': '+', 'sub': '-', 'mul': '*'}[op]
                if 'nsw' in fl and s.ub and bits in (8, 16, 32, 64):
                    bi = {'add': '__builtin_add_overflow', 'sub': '__builtin_sub_overflow', 'mul': '__builtin_mul_overflow'}[op]
                    o.append('  { int%d_t t_; VERIF_UB(!%s(%s, %s, &t_), "UB: signed overflow (%s nsw)"); }' % (bits, bi, s.sx(a, bits), s.sx(b, bits), op))
                if bits < 32:
                    e = '((%s)((uint32_t)%s %s (uint32_t)%s))' % (ct, a, cop, b)
                else:
                    e = '(%s %s %s)' % (a, cop, b)
                o.append('  %s = %s;' % (d, s.mask(e, bits)))
            elif op in ('and', 'or', 'xor'):
                cop = {'and': '&', 'or': '|', 'xor': '^'}[op]
                o.append('  %s = (%s)(%s %s %s);' % (d, ct, a, cop, b))
            elif op in ('shl', 'lshr', 'ashr'):
                s.ubassert(o, '%s < %d' % (b, bits), 'shift amount >= width')
                if op == 'shl':
                    e = '((%s)((%s)%s << %s))' % (ct, 'uint64_t' if bits > 32 else 'uint32_t', a, b)
                    o.append('  %s = %s;' % (d, s.mask(e, bits)))
                elif op == 'lshr':
                    o.append('  %s = (%s)(%s >> %s);' % (d, ct, a, b))
                else:
                    o.append('  %s = %s;' % (d, s.mask('((%s)(%s >> %s))' % (ct, s.sx(a, bits), b), bits)))
            elif op in ('udiv', 'urem'):
                s.ubassert(o, '%s != 0' % b, 'division by zero')
                o.append('  %s = (%s)(%s %s %s);' % (d, ct, a, '/' if op == 'udiv' else '%', b))
            elif op in ('sdiv', 'srem'):
                s.ubassert(o, '%s != 0' % b, 'division by zero')
                mn = '((int%d_t)(1ULL << %d))' % (bits, bits - 1)
                s.ubassert(o, '!(%s == %s && %s == -1)' % (s.sx(a, bits), mn, s.sx(b, bits)), 'signed division overflow')
                o.append('  %s = %s;' % (d, s.mask('((%s)(%s %s %s))' % (ct, s.sx(a, bits), '/' if op == 'sdiv' else '%', s.sx(b, bits)), bits)))
            return
        if op == 'fneg':
            o.append('  %s = -%s;' % (d, s.val(I['a']))); return
        if op == 'icmp':
            a = s.val(I['a']); b = s.val(I['b'])
            r = L.res(I['opty'])
            pred = I['pred']
            if r.k == 'ptr':
                cop = {'eq': '==', 'ne': '!=', 'ult': '<', 'ule': '<=', 'ugt': '>', 'uge': '>=',
                       'slt': '<', 'sle': '<=', 'sgt': '>', 'sge': '>='}[pred]
                if pred in ('eq', 'ne'):
                    o.append('  %s = (%s %s %s);' % (d, a, cop, b))
                else:
                    o.append('  %s = VERIF_PTRCMP(%s, %s, %s);' % (d, a, cop, b))
                return
            bits = r.bits
            if pred[0] == 's':
                a = s.sx(a, bits); b = s.sx(b, bits)
            cop = {'eq': '==', 'ne': '!=', 'ult': '<', 'ule': '<=', 'ugt': '>', 'uge': '>=',
                   'slt': '<', 'sle': '<=', 'sgt': '>', 'sge': '>='}[pred]
            o.append('  %s = (%s %s %s);' % (d, a, cop, b)); return
        if op == 'fcmp':
            a = s.val(I['a']); b = s.val(I['b'])
            pred = I['pred']
            base = {'eq': '==', 'ne': '!=', 'lt': '<', 'le': '<=', 'gt': '>', 'ge': '>='}
            if pred == 'true': e = '1'
            elif pred == 'false': e = '0'
            elif pred == 'ord': e = '(%s == %s && %s == %s)' % (a, a, b, b)
            elif pred == 'uno': e = '(%s != %s || %s != %s)' % (a, a, b, b)
            elif pred[0] == 'o':
                if pred[1:] == 'ne':
                    e = '(%s == %s && %s == %s && %s != %s)' % (a, a, b, b, a, b)
                else:
                    e = '(%s %s %s)' % (a, base[pred[1:]], b)
            else:  # unordered or ...
                if pred[1:] == 'ne':
                    e = '(%s != %s)' % (a, b)
                else:
                    e = '(%s != %s || %s != %s || %s %s %s)' % (a, a, b, b, a, base[pred[1:]], b)
            o.append('  %s = %s;' % (d, e)); return
        if op in s.CASTS:
            ft = L.res(I['a'][2]); rt = L.res(I['ty'])
            a = s.val(I['a'])
            ct = s.cty(I['ty'])
            if op in ('trunc', 'zext', 'sext', 'ptrtoint', 'inttoptr', 'bitcast', 'addrspacecast'):
                o.append('  %s = %s;' % (d, s.cast_expr(op, I['a'], I['ty'])))
            elif op == 'fptosi':
                if s.ub:
                    lo = -(2.0 ** (rt.bits - 1)) - 1.0; hi = 2.0 ** (rt.bits - 1)
                    o.append('  VERIF_UB(%s > %s && %s < %s, "UB: fptosi out of range");' % (a, float.hex(lo) if ft.k == 'double' or rt.bits < 24 else float.hex(-(2.0 ** (rt.bits - 1)) * (1 + 2.0 ** -23)), a, float.hex(hi)))
                o.append('  %s = %s;' % (d, s.mask('((%s)(int%d_t)%s)' % (ct, max(8, rt.bits) if rt.bits in (8, 16, 32, 64) else 64, a), rt.bits)))
            elif op == 'fptoui':
                if s.ub:
                    o.append('  VERIF_UB(%s > -1.0 && %s < %s, "UB: fptoui out of range");' % (a, a, float.hex(2.0 ** rt.bits)))
                o.append('  %s = %s;' % (d, s.mask('((%s)%s)' % (ct, a), rt.bits)))
            elif op == 'sitofp':
                o.append('  %s = (%s)%s;' % (d, ct, s.sx(a, ft.bits)))
            elif op in ('uitofp', 'fptrunc', 'fpext'):
                o.append('  %s = (%s)%s;' % (d, ct, a))
            return
        if op == 'select':
            o.append('  %s = %s ? %s : %s;' % (d, s.val(I['c']), s.val(I['a']), s.val(I['b']))); return
        if op == 'phi':
            return
        if op == 'freeze':
            o.append('  %s = %s;' % (d, s.val(I['a']))); return
        if op == 'load':
            ct = s.cty(I['ty'])
            if s.ub: o.append('  VERIF_CHK(%s, sizeof(%s));' % (s.val(I['a']), ct))
            o.append('  %s = *(%s*)%s;' % (d, ct, s.val(I['a'])))
            r = L.res(I['ty'])
            if r.k == 'int' and r.bits not in (8, 16, 32, 64):
                o.append('  %s = %s;' % (d, s.mask(d, r.bits)))
            return
        if op == 'store':
            ct = s.cty(I['ty'])
            if s.ub: o.append('  VERIF_CHK(%s, sizeof(%s));' % (s.val(I['a']), ct))
            o.append('  *(%s*)%s = %s;' % (ct, s.val(I['a']), s.val(I['v']))); return
        if op == 'alloca':
            sz, al = L.size_align(I['aty'])
            n = 1
            if I['cnt'] is not None:
                assert I['cnt'][0] == 'int', 'dynamic alloca'
                n = I['cnt'][1]
            if n == 1 and sz > 0:
                o.append('  %s %s_obj; uint8_t* %s = (uint8_t*)&%s_obj;' % (s.cty(I['aty']), d, d, d))
            else:
                o.append('  uint8_t %s_mem[%d] __attribute__((aligned(%d))); uint8_t* %s = %s_mem;' % (d, max(1, sz * n), max(al, 1), d, d))
            return
        if op == 'getelementptr':
            o.append('  %s = %s;' % (d, s.gep_expr(I['bt'], s.val(I['base']), I['idx']))); return
        if op == 'br':
            if 'uncond' in I:
                o.append('  ' + jump(bn, I['uncond']))
            else:
                o.append('  if (%s) { %s } else { %s }' % (s.val(I['c']), jump(bn, I['t']), jump(bn, I['f'])))
            return
        if op == 'switch':
            v = s.val(I['v'])
            o.append('  switch (%s) {' % v)
            for cv, lab in I['cases']:
                o.append('    case %s: { %s }' % (s.intlit(cv[1], L.res(cv[2])), jump(bn, lab)))
            o.append('    default: { %s }' % jump(bn, I['default']))
            o.append('  }')
            return
        if op == 'ret':
            if I['v'] is None: o.append('  return;')
            else: o.append('  return %s;' % s.val(I['v']))
            return
        if op == 'unreachable':
            o.append('  VERIF_UB(0, "UB: reached llvm unreachable"); __CPROVER_assume(0);')
            if L.res(f.ret).k != 'void':
                pass
            return
        if op == 'extractvalue':
            e = s.val(I['a'])
            cur = I['aty']
            for i in I['idx']:
                r = L.res(cur)
                if r.k == 'struct': e += '.f%d' % i; cur = r.fields[i]
                else: e += '.e[%d]' % i; cur = r.elem
            o.append('  %s = %s;' % (d, e)); return
        if op == 'insertvalue':
            o.append('  %s = %s;' % (d, s.val(I['a'])))
            e = d; cur = I['ty']
            for i in I['idx']:
                r = L.res(cur)
                if r.k == 'struct': e += '.f%d' % i; cur = r.fields[i]
                else: e += '.e[%d]' % i; cur = r.elem
            o.append('  %s = %s;' % (e, s.val(I['v']))); return
        if op == 'call':
            return s.emit_call(I, o, d)
        raise ValueError('emit %s' % op)

    def emit_call(s, I, o, d):
        k, name = I['callee']
        args = I['args']
        L = s.L
        if k in ('id', 'qid') and name[0] == '@':
            nm = name[1:]
            if nm.startswith('llvm.'):
                return s.emit_intrinsic(nm, I, o, d)
            if nm in ('__CPROVER_assert', 'verif_assert'):
                msg = 'assertion'
                a1 = args[1]
                gn = None
                if a1[0] == 'cgep' and a1[1][1][0] == 'global': gn = a1[1][1][1]
                elif a1[0] == 'global': gn = a1[1]
                def cmsg(v):
                    g_ = None
                    if v[0] == 'cgep' and v[1][1][0] == 'global': g_ = v[1][1][1]
                    elif v[0] == 'global': g_ = v[1]
                    gg = s.mod.globals.get(g_) if g_ is not None else None
                    if gg and gg['init'] and gg['init'][0] == 'cstr':
                        return gg['init'][1].rstrip(b'\0').decode('latin1').replace('"', "'").replace('\\', '/')
                    return None
                if gn is not None:
                    m_ = cmsg(a1)
                    if m_ is not None: msg = m_
                elif a1[0] == 'local':
                    # several assertion sites merged by LLVM: the message is a phi of string constants; keep the texts
                    dd = s.defs.get(a1[1])
                    if dd and dd['op'] == 'phi':
                        alts = [(iv, cmsg(iv)) for iv, _pred in dd.get('inc', [])]
                        if alts and all(m is not None for _v, m in alts):
                            seen = []
                            line = '  '
                            for iv, m in alts:
                                if m in seen: continue
                                seen.append(m)
                                line += 'if (%s == %s) { VERIF_ASSERT(%s, "%s"); } else ' % (s.val(a1), s.val(iv), s.val(args[0]), m)
                            line += '{ VERIF_ASSERT(%s, "assertion"); }' % s.val(args[0])
                            o.append(line); return
                o.append('  VERIF_ASSERT(%s, "%s");' % (s.val(args[0]), msg)); return
            if nm in ('__CPROVER_assume', 'verif_assume'):
                o.append('  VERIF_ASSUME(%s);' % s.val(args[0])); return
            if nm == 'verif_reach':
                o.append('  VERIF_WITNESS();'); return
            if nm == 'verif_observe':
                o.append('  VERIF_OBSERVE(%s);' % s.val(args[0])); return
            av = ', '.join(s.val(a) for a in args)
            call = '%s(%s)' % (s.fname(name), av)
            if nm == 'bcmp': call = 'verif_bcmp(%s)' % av      # clang turns memcmp(...) == 0 into bcmp
            if s.uf_float and nm in ('sqrtf', 'sqrt', 'log2', 'log2f', 'logf', 'log', 'expf', 'exp', 'exp2f', 'exp2'):
                call = 'VERIF_FUF1(%s, %s)' % (nm, av)
        else:
            # indirect
            fp = s.lname(name)
            pt = [a[2] for a in args]
            call = '((%s)%s)(%s)' % (s.fnptr_type(I['ty'], pt, False), fp, ', '.join(s.val(a) for a in args))
        if d and L.res(I['ty']).k != 'void':
            o.append('  %s = %s;' % (d, call))
        else:
            o.append('  %s;' % call)

    def emit_intrinsic(s, nm, I, o, d):
        a = I['args']
        L = s.L
        def v(i): return s.val(a[i])
        if nm.startswith('llvm.lifetime') or nm.startswith('llvm.experimental.noalias') or nm.startswith('llvm.dbg') \
           or nm.startswith('llvm.invariant') or nm == 'llvm.assume':
            return
        if nm.startswith('llvm.memcpy'):
            o.append('  verif_memcpy(%s, %s, %s);' % (v(0), v(1), v(2))); return
        if nm.startswith('llvm.memmove'):
            o.append('  verif_memmove(%s, %s, %s);' % (v(0), v(1), v(2))); return
        if nm.startswith('llvm.memset'):
            o.append('  verif_memset(%s, %s, %s);' % (v(0), v(1), v(2))); return
        r = L.res(I['ty'])
        m = re.match(r'llvm\.(umax|umin|smax|smin)\.i(\d+)', nm)
        if m:
            bits = int(m.group(2)); x, y = v(0), v(1)
            if m.group(1)[0] == 's': xs, ys = s.sx(x, bits), s.sx(y, bits)
            else: xs, ys = x, y
            cmpop = '>' if m.group(1).endswith('max') else '<'
            o.append('  %s = (%s %s %s) ? %s : %s;' % (d, xs, cmpop, ys, x, y)); return
        m = re.match(r'llvm\.abs\.i(\d+)', nm)
        if m:
            bits = int(m.group(1)); x = v(0)
            o.append('  %s = (%s < 0) ? (%s)(0 - %s) : %s;' % (d, s.sx(x, bits), s.cty(I['ty']), x, x)); return
        m = re.match(r'llvm\.(ctlz|cttz)\.i(\d+)', nm)
        if m:
            o.append('  %s = verif_%s%s(%s);' % (d, m.group(1), m.group(2), v(0))); return
        m = re.match(r'llvm\.ctpop\.i(\d+)', nm)
        if m:
            o.append('  %s = verif_ctpop%s(%s);' % (d, m.group(1), v(0))); return
        m = re.match(r'llvm\.(fabs|floor|ceil|sqrt|trunc|rint|nearbyint|round|log2|exp2|log|exp)\.(f32|f64)', nm)
        if m:
            fn = m.group(1) + ('f' if m.group(2) == 'f32' else '')
            if s.uf_float and m.group(1) in ('sqrt', 'log2', 'exp2', 'log', 'exp'):
                o.append('  %s = VERIF_FUF1(%s, %s);' % (d, fn, v(0))); return
            o.append('  %s = %s(%s);' % (d, fn, v(0))); return
        m = re.match(r'llvm\.fmuladd\.(f32|f64)', nm)
        if m:
            if s.uf_float:
                w = '32' if m.group(1) == 'f32' else '64'
                o.append('  %s = VERIF_FFADD%s(VERIF_FFMUL%s(%s, %s), %s);' % (d, w, w, v(0), v(1), v(2))); return
            o.append('  %s = %s * %s + %s;' % (d, v(0), v(1), v(2))); return
        m = re.match(r'llvm\.(maxnum|minnum)\.(f32|f64)', nm)
        if m:
            fn = ('fmax' if m.group(1) == 'maxnum' else 'fmin') + ('f' if m.group(2) == 'f32' else '')
            o.append('  %s = %s(%s, %s);' % (d, fn, v(0), v(1))); return
        m = re.match(r'llvm\.(u|s)(add|sub|mul)\.with\.overflow\.i(\d+)', nm)
        if m:
            bits = int(m.group(3))
            ty = ('int%d_t' if m.group(1) == 's' else 'uint%d_t') % bits
            x, y = v(0), v(1)
            if m.group(1) == 's': x, y = s.sx(x, bits), s.sx(y, bits)
            o.append('  { %s r_; %s.f1 = __builtin_%s_overflow((%s)%s, (%s)%s, &r_); %s.f0 = (uint%d_t)r_; }' %
                     (ty, d, m.group(2), ty, x, ty, y, d, bits)); return
        m = re.match(r'llvm\.(fshl|fshr)\.i(\d+)', nm)
        if m:
            bits = int(m.group(2))
            o.append('  %s = verif_%s%d(%s, %s, %s);' % (d, m.group(1), bits, v(0), v(1), v(2))); return
        m = re.match(r'llvm\.bswap\.i(\d+)', nm)
        if m:
            o.append('  %s = __builtin_bswap%s(%s);' % (d, m.group(1), v(0))); return
        if nm.startswith('llvm.expect'):
            o.append('  %s = %s;' % (d, v(0))); return
        if nm.startswith('llvm.is.constant'):
            o.append('  %s = 0;   /* llvm.is.constant: "not known to be constant" is always a valid answer */' % d); return
        if nm == 'llvm.trap':
            o.append('  VERIF_UB(0, "UB: llvm.trap"); __CPROVER_assume(0);'); return
        if nm.startswith('llvm.stacksave'):
            o.append('  %s = 0;' % d); return
        if nm.startswith('llvm.stackrestore'):
            return
        raise ValueError('intrinsic %s' % nm)

    # ------------------------------------------------------------ module
    def emit_module(s, keep_funcs, keep_globals, entry):
        mod = s.mod
        gl = []
        for name, g in mod.globals.items():
            if name in ('@llvm.global_ctors', '@llvm.global_dtors', '@llvm.used', '@llvm.compiler.used'): continue
            if name not in keep_globals: continue
            ct = s.cty(g['type'])
            cn = 'g_' + cid(name)
            if g['external']:
                if name.startswith('@verif_'): continue   # defined by the prelude as g_verif_*
                # CBMC: an extern without definition starts with an arbitrary value; the gcc build of the differential
                # needs a definition to link
                gl.append(('decl', '#ifdef __CPROVER__\nextern %s %s;\n#else\n%s %s;\n#endif' % (ct, cn, ct, cn)))
            else:
                gl.append(('def', name, ct, cn, g))
        fbodies = []
        for name in mod.order:
            if name not in keep_funcs: continue
            if name[1:] in s.stubs:
                if s.stubs[name[1:]] == 'uf':
                    f = mod.funcs[name]
                    ufn = '__CPROVER_uninterpreted_' + cid(name)
                    ps = ', '.join(s.cty(t) for t, n, a in f.params)
                    args = ', '.join(s.lname(n) for t, n, a in f.params)
                    fbodies.append('#ifdef __CPROVER__\n%s %s(%s);\n%s { return %s(%s); }\n#else\n%s\n#endif' %
                                   (s.cty(f.ret), ufn, ps, s.proto(f), ufn, args, s.emit_function(f)))
                continue
            fbodies.append(s.emit_function(mod.funcs[name]))
        # prototypes for everything that is referenced
        protos = []
        nobody = []
        for name, f in mod.decls.items():
            nm = name[1:]
            if nm.startswith('llvm.'): continue
            if nm in PRELUDE_DEFINED or nm in HARNESS_API: continue
            if name not in s.referenced_decls: continue
            protos.append(s.proto(f) + ';')
            nobody.append(f)
        for name in mod.order:
            if name in keep_funcs:
                protos.append(s.proto(mod.funcs[name]) + ';')
        # bodies for callees that have none: reaching one is an error unless it is a declared stub
        stubtxt = []
        s.nobody_names = []
        for f in nobody + [mod.funcs[n] for n in mod.order if n in keep_funcs and n[1:] in s.stubs and s.stubs[n[1:]] != 'uf']:
            nm = f.name[1:]
            kind = s.stubs.get(nm)
            r = s.L.res(f.ret)
            if kind is None:
                s.nobody_names.append(nm)
                b = '  VERIF_NOBODY(0, "NOBODY: call to function without body %s"); __CPROVER_assume(0);' % cid(f.name)[:90]
            elif kind == 'havoc':
                b = '  /* declared stub: havoc */'
            elif kind == 'unreachable':
                b = '  VERIF_ASSERT(0, "declared-unreachable stub reached: %s"); __CPROVER_assume(0);' % cid(f.name)[:90]
            elif kind in ('noop', 'ret0', 'ret1'):
                b = '  /* declared stub: %s */' % kind
            else:
                raise ValueError('stub kind %s' % kind)
            if r.k == 'void':
                stubtxt.append('%s {\n%s\n}' % (s.proto(f), b))
            else:
                ct = s.cty(f.ret)
                if kind in ('noop', 'ret0'):
                    stubtxt.append('%s {\n%s\n  %s r_; memset(&r_, 0, sizeof r_); return r_;\n}' % (s.proto(f), b, ct))
                elif kind == 'ret1':
                    stubtxt.append('%s {\n%s\n  return (%s)1;\n}' % (s.proto(f), b, ct))
                else:
                    stubtxt.append('%s {\n%s\n  %s r_; VERIF_HAVOC(r_); return r_;\n}' % (s.proto(f), b, ct))
        gtxt = []
        for x in gl:
            if x[0] == 'decl': gtxt.append(x[1])
        for x in gl:
            if x[0] == 'def':
                _, name, ct, cn, g = x
                gtxt.append('%s %s;' % (ct, cn))
        ginit = []
        for x in gl:
            if x[0] == 'def':
                _, name, ct, cn, g = x
                init = s.cinit(g['init'], g['type'])
                ginit.append('%s %s = %s;' % (ct, cn, init))
        out = [PRELUDE, '/*BODY-BEGIN*/']
        out.extend(s.aggdefs)
        out.extend(protos)
        out.extend(gtxt)
        out.extend(ginit)
        out.extend(stubtxt)
        out.extend(fbodies)
        out.append('/*BODY-END*/')
        s.emitted_names = sorted(set([cid(n) for n in keep_funcs] + [s.fname(f.name) for f in nobody] +
                                     ['g_' + cid(x[1]) for x in gl if x[0] == 'def'] +
                                     [v.split()[1] for v in s.aggtypes.values()]))
        out.append('void verif_entry(void) { %s(); }' % cid(entry))
        out.append(NATIVE_MAIN)
        return '\n'.join(out) + '\n'

HARNESS_API = {'nondet_u8', 'nondet_u16', 'nondet_u32', 'nondet_u64', 'nondet_i8', 'nondet_i16', 'nondet_i32', 'nondet_i64',
               'nondet_float', 'nondet_double', 'nondet_bool', 'verif_assume', 'verif_assert', 'verif_reach', 'verif_observe',
               '__CPROVER_assume', '__CPROVER_assert'}

PRELUDE_DEFINED = {'_Znwm', '_Znam', '_ZdlPv', '_ZdaPv', '_ZdlPvm', '_ZdaPvm',
                   '_ZSt20__throw_length_errorPKc', '_ZSt17__throw_bad_allocv', '_ZSt24__throw_out_of_range_fmtPKcz',
                   '_ZSt28__throw_bad_array_new_lengthv', '_ZSt19__throw_logic_errorPKc', '_ZSt25__throw_bad_function_callv', '_ZSt21__glibcxx_assert_failPKciS0_S0_',
                   'memcpy', 'memmove', 'memset', 'memcmp', 'strlen', 'memchr',
                   '__cxa_atexit', 'floor', 'ceil', 'floorf', 'ceilf', 'sqrt', 'sqrtf', 'fabs', 'fabsf',
                   'malloc', 'free', 'abort', 'bcmp', '__cxa_pure_virtual', '_ZSt20__throw_out_of_rangePKc',
                   '__cxa_guard_acquire', '__cxa_guard_release'}

PRELUDE = r"""
/* generated by ir2c.py -- do not edit */
#include <stdint.h>
#include <stddef.h>
#include <string.h>
#include <stdlib.h>
#include <math.h>
#ifdef __CPROVER__
/* ---------------- CBMC side ---------------- */
#define VERIF_ASSUME(c) __CPROVER_assume(c)
#ifdef VERIF_WITNESS_ONLY
#define VERIF_ASSERT(c, m) ((void)0)
#define VERIF_UB(c, m) ((void)0)
#define VERIF_GLOBAL(c, m) ((void)0)
#define VERIF_ALLOCBOUND(c, m) ((void)0)
#define VERIF_WITNESS() __CPROVER_assert(0, "WITNESS")
#else
#ifdef VERIF_ONLY_GLOBAL
#define VERIF_ASSERT(c, m) ((void)0)
#define VERIF_NO_UB 1
#else
#define VERIF_ASSERT(c, m) __CPROVER_assert(c, m)
#endif
#ifdef VERIF_NO_UB
#define VERIF_UB(c, m) ((void)0)
#else
#define VERIF_UB(c, m) __CPROVER_assert(c, m)
#endif
#ifdef VERIF_NO_GLOBALCHECK
#define VERIF_GLOBAL(c, m) ((void)0)
#else
#define VERIF_GLOBAL(c, m) __CPROVER_assert(c, m)
#endif
#define VERIF_ALLOCBOUND(c, m) __CPROVER_assert(c, m)
#define VERIF_WITNESS() ((void)0)
#endif
#define VERIF_NOBODY(c, m) __CPROVER_assert(c, m)
#define VERIF_OBSERVE(v) ((void)0)
#define VERIF_HAVOC(x) ((void)0)   /* an uninitialised local is nondeterministic in CBMC */
uint8_t  __VERIFIER_nondet_u8(void);  uint16_t __VERIFIER_nondet_u16(void);
uint32_t __VERIFIER_nondet_u32(void); uint64_t __VERIFIER_nondet_u64(void);
uint8_t  nondet_u8(void)  { uint8_t  verif_nd_val = __VERIFIER_nondet_u8();  return verif_nd_val; }
uint16_t nondet_u16(void) { uint16_t verif_nd_val = __VERIFIER_nondet_u16(); return verif_nd_val; }
uint32_t nondet_u32(void) { uint32_t verif_nd_val = __VERIFIER_nondet_u32(); return verif_nd_val; }
uint64_t nondet_u64(void) { uint64_t verif_nd_val = __VERIFIER_nondet_u64(); return verif_nd_val; }
#else
/* ---------------- native side (translation differential / replay of the generated C) ---------------- */
#include <stdio.h>
static FILE* verif_stream;
static uint64_t verif_next(void) {
  unsigned long long v = 0;
  if (!verif_stream || fscanf(verif_stream, "%llx", &v) != 1) return 0;
  return v;
}
uint8_t  nondet_u8(void)  { return (uint8_t)verif_next(); }
uint16_t nondet_u16(void) { return (uint16_t)verif_next(); }
uint32_t nondet_u32(void) { return (uint32_t)verif_next(); }
uint64_t nondet_u64(void) { return (uint64_t)verif_next(); }
static void __CPROVER_assume(int c) { if (!c) { printf("ASSUME-STOP\n"); fflush(stdout); exit(0); } }
#define VERIF_ASSUME(c) __CPROVER_assume(c)
#define VERIF_ASSERT(c, m) do { printf("assert %s: %s\n", (m), (c) ? "ok" : "FAIL"); fflush(stdout); } while (0)
#define VERIF_UB(c, m) do { if (!(c)) { printf("ubfail %s\n", (m)); fflush(stdout); } } while (0)
#define VERIF_GLOBAL(c, m) ((void)0)
#define VERIF_ALLOCBOUND(c, m) do { if (!(c)) { printf("allocbound-fail %s\n", (m)); fflush(stdout); } } while (0)
#define VERIF_NOBODY(c, m) do { printf("%s\n", (m)); fflush(stdout); exit(3); } while (0)
#define VERIF_WITNESS() do { printf("REACH\n"); fflush(stdout); } while (0)
#define VERIF_OBSERVE(v) do { printf("obs %llx\n", (unsigned long long)(v)); fflush(stdout); } while (0)
#define VERIF_HAVOC(x) memset(&(x), 0, sizeof(x))
#define __CPROVER_POINTER_OBJECT(p) 0
#define __CPROVER_POINTER_OFFSET(p) 0
#endif
uint8_t  nondet_i8(void)  { return nondet_u8(); }
uint16_t nondet_i16(void) { return nondet_u16(); }
uint32_t nondet_i32(void) { return nondet_u32(); }
uint64_t nondet_i64(void) { return nondet_u64(); }
uint8_t  nondet_bool(void) { return nondet_u8() & 1; }
#ifdef __CPROVER__
#define VERIF_PTRDIFF(a, b) (__CPROVER_same_object((a), (b)) ? (uint64_t)((int64_t)__CPROVER_POINTER_OFFSET(a) - (int64_t)__CPROVER_POINTER_OFFSET(b)) : ((uint64_t)(a) - (uint64_t)(b)))
#define VERIF_PTRCMP(a, op, b) (__CPROVER_same_object((a), (b)) ? ((uint64_t)__CPROVER_POINTER_OFFSET(a) op (uint64_t)__CPROVER_POINTER_OFFSET(b)) : ((uint64_t)(a) op (uint64_t)(b)))
#else
#define VERIF_PTRDIFF(a, b) ((uint64_t)(a) - (uint64_t)(b))
#define VERIF_PTRCMP(a, op, b) ((uint64_t)(a) op (uint64_t)(b))
#endif
/* float arithmetic as uninterpreted functions (option --uf-float): sound abstraction for equality / 2-safety obligations */
/* symbolic x symbolic integer multiply / divide as uninterpreted functions (option --uf-int): for equivalence obligations */
static inline uint32_t verif_iuf_add32(uint32_t a, uint32_t b) { return a + b; } static inline uint64_t verif_iuf_add64(uint64_t a, uint64_t b) { return a + b; }
static inline uint32_t verif_iuf_sub32(uint32_t a, uint32_t b) { return a - b; } static inline uint64_t verif_iuf_sub64(uint64_t a, uint64_t b) { return a - b; }
static inline uint32_t verif_iuf_shl32(uint32_t a, uint32_t b) { return a << b; } static inline uint64_t verif_iuf_shl64(uint64_t a, uint64_t b) { return a << b; }
static inline uint32_t verif_iuf_lshr32(uint32_t a, uint32_t b) { return a >> b; } static inline uint64_t verif_iuf_lshr64(uint64_t a, uint64_t b) { return a >> b; }
static inline uint32_t verif_iuf_ashr32(uint32_t a, uint32_t b) { return (uint32_t)((int32_t)a >> b); } static inline uint64_t verif_iuf_ashr64(uint64_t a, uint64_t b) { return (uint64_t)((int64_t)a >> b); }
#ifdef __CPROVER__
uint32_t __CPROVER_uninterpreted_mul32(uint32_t, uint32_t); uint64_t __CPROVER_uninterpreted_mul64(uint64_t, uint64_t);
uint32_t __CPROVER_uninterpreted_udiv32(uint32_t, uint32_t); uint64_t __CPROVER_uninterpreted_udiv64(uint64_t, uint64_t);
uint32_t __CPROVER_uninterpreted_urem32(uint32_t, uint32_t); uint64_t __CPROVER_uninterpreted_urem64(uint64_t, uint64_t);
uint32_t __CPROVER_uninterpreted_sdiv32(uint32_t, uint32_t); uint64_t __CPROVER_uninterpreted_sdiv64(uint64_t, uint64_t);
uint32_t __CPROVER_uninterpreted_srem32(uint32_t, uint32_t); uint64_t __CPROVER_uninterpreted_srem64(uint64_t, uint64_t);
uint32_t __CPROVER_uninterpreted_add32(uint32_t, uint32_t); uint64_t __CPROVER_uninterpreted_add64(uint64_t, uint64_t);
uint32_t __CPROVER_uninterpreted_sub32(uint32_t, uint32_t); uint64_t __CPROVER_uninterpreted_sub64(uint64_t, uint64_t);
uint32_t __CPROVER_uninterpreted_shl32(uint32_t, uint32_t); uint64_t __CPROVER_uninterpreted_shl64(uint64_t, uint64_t);
uint32_t __CPROVER_uninterpreted_lshr32(uint32_t, uint32_t); uint64_t __CPROVER_uninterpreted_lshr64(uint64_t, uint64_t);
uint32_t __CPROVER_uninterpreted_ashr32(uint32_t, uint32_t); uint64_t __CPROVER_uninterpreted_ashr64(uint64_t, uint64_t);
/* operands below 256 (counts, strides, indices) keep their exact semantics so that addresses stay exact; only the
   wide data path is abstracted */
#define VERIF_SMALL(x) ((uint64_t)(x) < 256u)
#define VERIF_IUF(f, a, b) ((VERIF_SMALL(a) && VERIF_SMALL(b)) ? verif_iuf_##f(a, b) : __CPROVER_uninterpreted_##f(a, b))
#define VERIF_IMUL32(a, b) ((VERIF_SMALL(a) && VERIF_SMALL(b)) ? ((uint32_t)((uint32_t)(uint8_t)(a) * (uint32_t)(uint8_t)(b))) : __CPROVER_uninterpreted_mul32(a, b))
#define VERIF_IMUL64(a, b) ((VERIF_SMALL(a) && VERIF_SMALL(b)) ? ((uint64_t)((uint32_t)(uint8_t)(a) * (uint32_t)(uint8_t)(b))) : __CPROVER_uninterpreted_mul64(a, b))
#define VERIF_IUDIV32(a, b) ((VERIF_SMALL(a) && VERIF_SMALL(b) && (b) != 0) ? ((uint32_t)((uint32_t)(uint8_t)(a) / (uint32_t)(uint8_t)(b))) : __CPROVER_uninterpreted_udiv32(a, b))
#define VERIF_IUDIV64(a, b) ((VERIF_SMALL(a) && VERIF_SMALL(b) && (b) != 0) ? ((uint64_t)((uint32_t)(uint8_t)(a) / (uint32_t)(uint8_t)(b))) : __CPROVER_uninterpreted_udiv64(a, b))
#define VERIF_IUREM32(a, b) ((VERIF_SMALL(a) && VERIF_SMALL(b) && (b) != 0) ? ((uint32_t)((uint32_t)(uint8_t)(a) % (uint32_t)(uint8_t)(b))) : __CPROVER_uninterpreted_urem32(a, b))
#define VERIF_IUREM64(a, b) ((VERIF_SMALL(a) && VERIF_SMALL(b) && (b) != 0) ? ((uint64_t)((uint32_t)(uint8_t)(a) % (uint32_t)(uint8_t)(b))) : __CPROVER_uninterpreted_urem64(a, b))
#define VERIF_ISDIV32(a, b) ((VERIF_SMALL(a) && VERIF_SMALL(b) && (b) != 0) ? ((uint32_t)((uint32_t)(uint8_t)(a) / (uint32_t)(uint8_t)(b))) : __CPROVER_uninterpreted_sdiv32(a, b))
#define VERIF_ISDIV64(a, b) ((VERIF_SMALL(a) && VERIF_SMALL(b) && (b) != 0) ? ((uint64_t)((uint32_t)(uint8_t)(a) / (uint32_t)(uint8_t)(b))) : __CPROVER_uninterpreted_sdiv64(a, b))
#define VERIF_ISREM32(a, b) ((VERIF_SMALL(a) && VERIF_SMALL(b) && (b) != 0) ? ((uint32_t)((uint32_t)(uint8_t)(a) % (uint32_t)(uint8_t)(b))) : __CPROVER_uninterpreted_srem32(a, b))
#define VERIF_ISREM64(a, b) ((VERIF_SMALL(a) && VERIF_SMALL(b) && (b) != 0) ? ((uint64_t)((uint32_t)(uint8_t)(a) % (uint32_t)(uint8_t)(b))) : __CPROVER_uninterpreted_srem64(a, b))
#else
#define VERIF_IUF(f, a, b) verif_iuf_##f(a, b)
#define VERIF_IMUL32(a, b) ((uint32_t)((a) * (b)))
#define VERIF_IMUL64(a, b) ((uint64_t)((a) * (b)))
#define VERIF_IUDIV32(a, b) ((uint32_t)((a) / (b)))
#define VERIF_IUDIV64(a, b) ((uint64_t)((a) / (b)))
#define VERIF_IUREM32(a, b) ((uint32_t)((a) % (b)))
#define VERIF_IUREM64(a, b) ((uint64_t)((a) % (b)))
#define VERIF_ISDIV32(a, b) ((uint32_t)((int32_t)(a) / (int32_t)(b)))
#define VERIF_ISDIV64(a, b) ((uint64_t)((int64_t)(a) / (int64_t)(b)))
#define VERIF_ISREM32(a, b) ((uint32_t)((int32_t)(a) % (int32_t)(b)))
#define VERIF_ISREM64(a, b) ((uint64_t)((int64_t)(a) % (int64_t)(b)))
#endif
#ifdef __CPROVER__
float __CPROVER_uninterpreted_fadd32(float, float); float __CPROVER_uninterpreted_fsub32(float, float);
float __CPROVER_uninterpreted_fmul32(float, float); float __CPROVER_uninterpreted_fdiv32(float, float);
double __CPROVER_uninterpreted_fadd64(double, double); double __CPROVER_uninterpreted_fsub64(double, double);
double __CPROVER_uninterpreted_fmul64(double, double); double __CPROVER_uninterpreted_fdiv64(double, double);
float __CPROVER_uninterpreted_sqrtf(float); double __CPROVER_uninterpreted_sqrt(double);
float __CPROVER_uninterpreted_log2f(float); double __CPROVER_uninterpreted_log2(double);
float __CPROVER_uninterpreted_exp2f(float); double __CPROVER_uninterpreted_exp2(double);
float __CPROVER_uninterpreted_logf(float); double __CPROVER_uninterpreted_log(double);
float __CPROVER_uninterpreted_expf(float); double __CPROVER_uninterpreted_exp(double);
#define VERIF_FUF1(f, a) __CPROVER_uninterpreted_##f(a)
#define VERIF_FFADD32(a, b) __CPROVER_uninterpreted_fadd32(a, b)
#define VERIF_FFSUB32(a, b) __CPROVER_uninterpreted_fsub32(a, b)
#define VERIF_FFMUL32(a, b) __CPROVER_uninterpreted_fmul32(a, b)
#define VERIF_FFDIV32(a, b) __CPROVER_uninterpreted_fdiv32(a, b)
#define VERIF_FFADD64(a, b) __CPROVER_uninterpreted_fadd64(a, b)
#define VERIF_FFSUB64(a, b) __CPROVER_uninterpreted_fsub64(a, b)
#define VERIF_FFMUL64(a, b) __CPROVER_uninterpreted_fmul64(a, b)
#define VERIF_FFDIV64(a, b) __CPROVER_uninterpreted_fdiv64(a, b)
#else
#define VERIF_FUF1(f, a) f(a)
#define VERIF_FFADD32(a, b) ((a) + (b))
#define VERIF_FFSUB32(a, b) ((a) - (b))
#define VERIF_FFMUL32(a, b) ((a) * (b))
#define VERIF_FFDIV32(a, b) ((a) / (b))
#define VERIF_FFADD64(a, b) ((a) + (b))
#define VERIF_FFSUB64(a, b) ((a) - (b))
#define VERIF_FFMUL64(a, b) ((a) * (b))
#define VERIF_FFDIV64(a, b) ((a) / (b))
#endif
static inline float bc_i2f(uint32_t x) { float f; memcpy(&f, &x, 4); return f; }
static inline uint32_t bc_f2i(float f) { uint32_t x; memcpy(&x, &f, 4); return x; }
static inline double bc_i2d(uint64_t x) { double f; memcpy(&f, &x, 8); return f; }
static inline uint64_t bc_d2i(double f) { uint64_t x; memcpy(&x, &f, 8); return x; }
float  nondet_float(void)  { return bc_i2f(nondet_u32()); }
double nondet_double(void) { return bc_i2d(nondet_u64()); }
static inline uint32_t verif_ctlz32(uint32_t x) { return x == 0 ? 32 : (uint32_t)__builtin_clz(x); }
static inline uint64_t verif_ctlz64(uint64_t x) { return x == 0 ? 64 : (uint64_t)__builtin_clzll(x); }
static inline uint32_t verif_cttz32(uint32_t x) { uint32_t n = 0; if (x == 0) return 32; for (int i = 0; i < 32; ++i) { if ((x >> i) & 1) break; ++n; } return n; }
static inline uint64_t verif_cttz64(uint64_t x) { uint64_t n = 0; if (x == 0) return 64; for (int i = 0; i < 64; ++i) { if ((x >> i) & 1) break; ++n; } return n; }
static inline uint32_t verif_ctpop32(uint32_t x) { uint32_t n = 0; for (int i = 0; i < 32; ++i) n += (x >> i) & 1; return n; }
static inline uint64_t verif_ctpop64(uint64_t x) { uint64_t n = 0; for (int i = 0; i < 64; ++i) n += (x >> i) & 1; return n; }
static inline uint32_t verif_fshl32(uint32_t a, uint32_t b, uint32_t c) { c &= 31; return c ? (a << c) | (b >> (32 - c)) : a; }
static inline uint32_t verif_fshr32(uint32_t a, uint32_t b, uint32_t c) { c &= 31; return c ? (a << (32 - c)) | (b >> c) : b; }
static inline uint64_t verif_fshl64(uint64_t a, uint64_t b, uint64_t c) { c &= 63; return c ? (a << c) | (b >> (64 - c)) : a; }
static inline uint64_t verif_fshr64(uint64_t a, uint64_t b, uint64_t c) { c &= 63; return c ? (a << (64 - c)) | (b >> c) : b; }

/* ---- allocation model (DESIGN 2.2): operator new returns a fixed-size chunk; the requested size is kept in a
   shadow table indexed by CBMC's object number and every instrumented access is checked against it. ---- */
#ifndef VERIF_MAX_ALLOC
#define VERIF_MAX_ALLOC 32
#endif
#ifndef VERIF_OBJ_TABLE
#define VERIF_OBJ_TABLE 1024
#endif
uint64_t g_verif_input_len;        /* set by harnesses that state an allocation bound (C18) */
uint64_t g_verif_alloc_total;      /* sum of requested sizes */
uint64_t g_verif_alloc_count;
#ifdef __CPROVER__
uint64_t verif_req[VERIF_OBJ_TABLE];   /* requested size + 1, 0 = not a modelled heap chunk */
#define VERIF_CHK(p, w) { uint64_t r_ = verif_req[__CPROVER_POINTER_OBJECT(p)]; \
    if (r_ != 0) VERIF_UB((uint64_t)__CPROVER_POINTER_OFFSET(p) + (uint64_t)(w) <= r_ - 1, "UB: heap access beyond the requested allocation size"); }
#else
#define VERIF_CHK(p, w) ((void)0)
#endif
#ifndef VERIF_ALLOC_BOUND
#define VERIF_ALLOC_BOUND(n) 1
#endif
uint8_t* _Znwm(uint64_t n) {
  VERIF_ALLOCBOUND(VERIF_ALLOC_BOUND(n), "ALLOC-BOUND: allocation size not justified by remaining input / declared counts");
#if defined(__CPROVER__) && !defined(VERIF_ALLOW_ALLOC_CUT) && !defined(VERIF_WITNESS_ONLY)
  __CPROVER_assert(n <= VERIF_MAX_ALLOC, "ALLOC-CAP: an allocation exceeds the chunk size of this obligation (harness bound too small)");
#endif
  __CPROVER_assume(n <= VERIF_MAX_ALLOC);
  g_verif_alloc_total += n; g_verif_alloc_count += 1;
#ifdef VERIF_SMALL_ALLOC   /* opt-in second chunk class: requests up to VERIF_SMALL_ALLOC bytes get a small chunk (object headers
                             need a large VERIF_MAX_ALLOC, data buffers with symbolic write offsets should stay small) */
  uint8_t* p = (n <= VERIF_SMALL_ALLOC) ? malloc(VERIF_SMALL_ALLOC) : malloc(VERIF_MAX_ALLOC);
#else
  uint8_t* p = malloc(VERIF_MAX_ALLOC);
#endif
  __CPROVER_assume(p != 0);
#ifdef __CPROVER__
  verif_req[__CPROVER_POINTER_OBJECT(p)] = n + 1;
#endif
  return p;
}
uint8_t* _Znam(uint64_t n) { return _Znwm(n); }
void _ZdlPv(uint8_t* p) { free(p); }
void _ZdaPv(uint8_t* p) { free(p); }
void _ZdlPvm(uint8_t* p, uint64_t n) { free(p); }
void _ZdaPvm(uint8_t* p, uint64_t n) { free(p); }
static inline uint32_t verif_bcmp(const uint8_t* a, const uint8_t* b, uint64_t n) { return (uint32_t)memcmp(a, b, n); }
static inline void verif_memcpy(uint8_t* d, const uint8_t* s, uint64_t n) { if (n) { VERIF_CHK(d, n); VERIF_CHK(s, n); } memcpy(d, s, n); }
static inline void verif_memmove(uint8_t* d, const uint8_t* s, uint64_t n) { if (n) { VERIF_CHK(d, n); VERIF_CHK(s, n); } memmove(d, s, n); }
static inline void verif_memset(uint8_t* d, uint8_t c, uint64_t n) { if (n) { VERIF_CHK(d, n); } memset(d, c, n); }
void _ZSt20__throw_length_errorPKc(uint8_t* m) { VERIF_UB(0, "UB: abnormal exit: throws std::length_error"); __CPROVER_assume(0); }
void _ZSt20__throw_out_of_rangePKc(uint8_t* m) { VERIF_UB(0, "UB: abnormal exit: throws std::out_of_range"); __CPROVER_assume(0); }
void _ZSt24__throw_out_of_range_fmtPKcz(uint8_t* m, ...) { VERIF_UB(0, "UB: abnormal exit: throws std::out_of_range"); __CPROVER_assume(0); }
void _ZSt21__glibcxx_assert_failPKciS0_S0_(uint8_t* f, uint32_t l, uint8_t* fn, uint8_t* c) { VERIF_UB(0, "UB: libstdc++ assertion failed (_GLIBCXX_ASSERTIONS)"); __CPROVER_assume(0); }
void _ZSt19__throw_logic_errorPKc(uint8_t* m) { VERIF_UB(0, "UB: abnormal exit: throws std::logic_error"); __CPROVER_assume(0); }
void _ZSt17__throw_bad_allocv(void) { VERIF_UB(0, "UB: abnormal exit: throws std::bad_alloc"); __CPROVER_assume(0); }
void _ZSt28__throw_bad_array_new_lengthv(void) { VERIF_UB(0, "UB: abnormal exit: throws bad_array_new_length"); __CPROVER_assume(0); }
void _ZSt25__throw_bad_function_callv(void) { VERIF_UB(0, "UB: abnormal exit: throws bad_function_call"); __CPROVER_assume(0); }
uint32_t __cxa_atexit(uint8_t* a, uint8_t* b, uint8_t* c) { return 0; }
void __cxa_pure_virtual(void) { VERIF_UB(0, "UB: pure virtual call"); __CPROVER_assume(0); }
"""

NATIVE_MAIN = r"""
#ifndef __CPROVER__
int main(int argc, char** argv) {
  if (argc > 1) verif_stream = fopen(argv[1], "r");
  verif_entry();
  printf("END\n");
  return 0;
}
#endif
"""

REF = re.compile(r'@(?:"[^"]*"|[-a-zA-Z$._0-9]+)')

def reachable(mod, roots):
    """functions and globals reachable from roots through direct references (calls, address-taken
    functions, global initialisers such as vtables)"""
    seenf = set(); seeng = set(); decls = set(); work = list(roots)
    while work:
        n = work.pop()
        if n in mod.funcs:
            if n in seenf: continue
            seenf.add(n)
            for b in mod.funcs[n].blocks:
                for l in b['ins']:
                    for m in REF.finditer(l):
                        work.append(m.group(0))
        elif n in mod.globals:
            if n in seeng: continue
            seeng.add(n)
            t = mod.globals[n]['text']
            for m in REF.finditer(t.split('=', 1)[1]):
                work.append(m.group(0))
        elif n in mod.decls:
            decls.add(n)
    return seenf, seeng, decls

def main():
    import argparse, json
    ap = argparse.ArgumentParser()
    ap.add_argument('ll'); ap.add_argument('-o', required=True)
    ap.add_argument('--entry', required=True, help='harness entry function (extern "C")')
    ap.add_argument('--no-ub', action='store_true')
    ap.add_argument('--uf-float', action='store_true', help='float +,-,*,/ as uninterpreted functions')
    ap.add_argument('--uf-int', nargs='?', const='muldiv', default=None, help="symbolic x symbolic integer mul/div/rem ('muldiv') or also add/sub/shifts ('all') as uninterpreted functions")
    ap.add_argument('--stub', action='append', default=[], help='name=havoc|unreachable|noop (mangled name)')
    ap.add_argument('--info', default=None, help='write json with emitted functions etc.')
    ap.add_argument('--scan-globals', action='store_true', help='no C output: report references to mutable globals in all functions reachable from the entry')
    ap.add_argument('--list-reachable', action='store_true', help='only print the defined functions reachable from the entry')
    a = ap.parse_args()
    mod = parse_module(open(a.ll).read())
    if a.scan_globals:
        kf, kg, kd = reachable(mod, ['@' + a.entry])
        refs = []
        for fn in sorted(kf):
            for b in mod.funcs[fn].blocks:
                for l in b['ins']:
                    for m in REF.finditer(l):
                        g = mod.globals.get(m.group(0))
                        if g is None or g['const']: continue
                        nm = m.group(0)[1:].strip('"')
                        if nm.startswith('verif_'): continue
                        refs.append([fn[1:].strip('"'), nm, l.strip()[:160]])
        json.dump({'functions_scanned': len(kf), 'declared_only': sorted(n[1:].strip('"') for n in kd),
                   'defined': sorted(n[1:].strip('"') for n in kf), 'mutable_global_refs': refs}, open(a.o, 'w'), indent=0)
        return
    if a.list_reachable:
        kf, kg, kd = reachable(mod, ['@' + a.entry])
        json.dump({'defined': sorted(n[1:].strip('"') for n in kf), 'declared': sorted(n[1:].strip('"') for n in kd)}, open(a.o, 'w'))
        return
    entry = '@' + a.entry
    if entry not in mod.funcs:
        sys.stderr.write('ir2c: entry %s not found\n' % a.entry); sys.exit(2)
    stubs = {}
    for x in a.stub:
        k, v = x.split('=', 1); stubs[k] = v
    # stubbed functions are not followed
    saved = {}
    for k in stubs:
        if stubs[k] == 'uf': continue     # body is kept (native side); callees stay reachable
        if '@' + k in mod.funcs:
            saved[k] = mod.funcs['@' + k].blocks
            mod.funcs['@' + k].blocks = []
    kf, kg, kd = reachable(mod, [entry])
    em = Emitter(mod, ub=not a.no_ub, stubs=stubs, uf_float=a.uf_float, uf_int=a.uf_int)
    em.referenced_decls = kd
    txt = em.emit_module(kf, kg, a.entry)
    open(a.o, 'w').write(txt)
    if a.info:
        json.dump({'entry': a.entry,
                   'functions': sorted(n[1:] for n in kf if n[1:] not in stubs),
                   'stubs': stubs,
                   'no_body': em.nobody_names,
                   'mutable_global_refs': sorted([f[1:], g[1:]] for f, g in em.mut_hits),
                   'emitted_names': em.emitted_names,
                   'globals': sorted(n[1:] for n in kg)}, open(a.info, 'w'), indent=1)

if __name__ == '__main__':
    main()
