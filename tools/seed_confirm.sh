#!/bin/bash
# usage: tools/seed_confirm.sh <seed-name> <worktree> : confirms a seeded change in a scratch worktree of /repo
#   (1) the unmodified tree passes its demo, (2) with the patch the library still builds and the unit tests still pass
#   (all but the two tests that fail on the pinned tree), (3) the demo fails with the patch.
name=$1; wt=$2; sd=/verif/seeded/$name
set -u
log=$sd/confirm.log; : > $log
cd $wt && git checkout -q -- . && git status --short | grep -v "^??" >> $log
demo_build() { g++ -std=c++17 -O1 -I$wt/src -I$wt/_build $sd/demo.cc $wt/_build/libdraco.a -lpthread -o $wt/_build/seed_demo >> $log 2>&1; }
cmake --build $wt/_build -j16 2>&1 | tail -1 >> $log
demo_build; (cd $wt/_build && timeout 600 ./seed_demo > $wt/_build/demo_clean.out 2>&1); rc_clean=$?
git apply $sd/patch.diff || { echo "patch does not apply" | tee -a $log; exit 2; }
cmake --build $wt/_build -j16 2>&1 | tail -1 >> $log
(cd $wt/_build && ./draco_tests 2>&1 | grep -E "^\[  (PASSED|FAILED)" > tests.out; ./draco_factory_tests 2>&1 | grep -E "^\[  (PASSED|FAILED)" >> tests.out)
passed=$(grep -h "PASSED" $wt/_build/tests.out | grep -oE "[0-9]+" | paste -sd+ | bc)
failed=$(grep -h "FAILED  \] [A-Z]" $wt/_build/tests.out | sort -u | tr '\n' ' ')
demo_build; (cd $wt/_build && timeout 600 ./seed_demo > $wt/_build/demo_patched.out 2>&1); rc_patched=$?
git checkout -q -- .
echo "seed=$name demo_rc_unmodified=$rc_clean demo_rc_patched=$rc_patched tests_passed_with_patch=$passed failing_tests_with_patch=[$failed]" | tee -a $log
tail -3 $wt/_build/demo_patched.out >> $log
