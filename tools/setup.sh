#!/bin/sh
# Offline setup: nothing to build ahead of time -- every check regenerates its encoding from /repo.
# Only verifies that the pre-installed tools the checks need are present.
set -e
for t in clang++-14 opt-14 cbmc g++ gcc python3 z3 cvc5 kissat c++filt; do
  command -v $t >/dev/null 2>&1 || { echo "missing tool: $t"; exit 1; }
done
mkdir -p build evidence replays
python3 -c "import ast,sys; [ast.parse(open(f).read()) for f in ('tools/ir2c.py','tools/vlib.py')]"
echo setup ok
