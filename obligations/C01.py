from vlib import Ob
H = 'C01/pred.cc'
OBLIGATIONS = [
  Ob('C01.zigzag_arr', H, 'h_zigzag_arr', tier='quick', unwind=6, defines={'NE': 4},
     bound='arrays of n<=4 arbitrary int32', covers='ConvertSignedIntsToSymbols, ConvertSymbolsToSignedInts (core/bit_utils.cc)'),
  Ob('C01.delta_rt_2x1', H, 'h_delta_rt', tier='quick', unwind=6, defines={'NE': 2, 'NCOMP': 1}, max_alloc=16,
     bound='2 entries x 1 component, ARBITRARY int32 values; transform data travels through Encoder/DecoderBuffer',
     covers='PredictionSchemeDeltaEncoder::ComputeCorrectionValues, PredictionSchemeDeltaDecoder::ComputeOriginalValues, PredictionSchemeWrapEncodingTransform::Init/ComputeCorrection/EncodeTransformData, PredictionSchemeWrapDecodingTransform::DecodeTransformData/ComputeOriginalValue'),
  Ob('C01.delta_rt_3x1', H, 'h_delta_rt', tier='thorough', unwind=8, defines={'NE': 3, 'NCOMP': 1}, max_alloc=16, backend='kissat',
     bound='3 entries x 1 component, arbitrary int32', covers='as C01.delta_rt_2x1'),
  Ob('C01.recompute_pgram', H, 'h_pgram_recompute', tier='quick', unwind=10, defines={'NE': 4, 'NCOMP': 2},
     bound='arbitrary in-range table (2 faces / 6 corners), 4 entries x 2 components, entry p and corner symbolic',
     covers='ComputeParallelogramPrediction<TableT,int32_t> (mesh_prediction_scheme_parallelogram_shared.h), GetParallelogramEntries'),
  Ob('C01.pgram_rt_2', H, 'h_pgram_rt', tier='thorough', unwind=6, defines={'NE': 2, 'NCOMP': 1, 'DATA_BITS': 29}, max_alloc=16,
     bound='monolithic encoder->decoder round trip: 2 entries x 1 component, values in [-2^29,2^29), arbitrary in-range table',
     covers='MeshPredictionSchemeParallelogramEncoder::ComputeCorrectionValues, ...Decoder::ComputeOriginalValues, wrap transform'),
  Ob('C01.pgram_rt_3', H, 'h_pgram_rt', tier='extended', unwind=6, defines={'NE': 3, 'NCOMP': 1, 'DATA_BITS': 29}, max_alloc=16,
     bound='3 entries x 1 component', covers='as C01.pgram_rt_2'),
  Ob('C01.seq_conn_rt', 'C01/seqconn.cc', 'h_seq_conn_rt', tier='quick', unwind=8, defines={'_GLIBCXX_ASSERTIONS': 1}, max_alloc=32, mem_gb=20, timeout=900,
     stubs={'_ZNK5draco7Options7GetBoolERKNSt7__cxx1112basic_stringIcSt11char_traitsIcESaIcEEEb': 'ret0'},
     bound='1 face with any valid indices, EVERY number of points 1..2^22 (all four index encodings and their boundaries), stream version 2.2, raw (uncompressed) connectivity',
     covers='MeshSequentialEncoder::EncodeConnectivity <-> MeshSequentialDecoder::DecodeConnectivity on real Mesh / EncoderBuffer / DecoderBuffer / EncoderOptions objects'),
  Ob('C01.multi_rt_2', H, 'h_multi_rt', tier='thorough', unwind=10, defines={'NE': 2, 'NCOMP': 1, 'DATA_BITS': 29}, max_alloc=16, uf_int=True, timeout=1700,
     bound='monolithic encoder->decoder round trip of the multi-parallelogram scheme: 2 entries x 1 component, values in [-2^29,2^29), arbitrary in-range table with symmetric opposite pairing',
     covers='MeshPredictionSchemeMultiParallelogramEncoder::ComputeCorrectionValues, ...Decoder::ComputeOriginalValues (fan walk, averaging), wrap transform'),
]
META = {}
