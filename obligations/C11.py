from vlib import Ob
H = 'C11/meta.cc'
D = {'_GLIBCXX_ASSERTIONS': 1}   # also switches off libstdc++'s extern template for basic_string: bodies land in the IR
OBLIGATIONS = [
  Ob('C11.name_rt', H, 'h_name_rt', tier='quick', unwind=10, defines=dict(D, MAXLEN=6), max_alloc=16,
     bound='name of symbolic length 0..6 with arbitrary bytes (small-string storage), one trailing byte',
     covers='MetadataEncoder::EncodeString, MetadataDecoder::DecodeName, std::string (libstdc++ templates instantiated in the TU)'),
  Ob('C11.entry_framing', H, 'h_entry_framing', tier='quick', unwind=10, diff=False, defines=dict(D, MAXLEN=3, MAXVAL=3), max_alloc=16,
     stubs={'_ZN5draco8Metadata14AddEntryBinaryERKNSt7__cxx1112basic_stringIcSt11char_traitsIcESaIcEEERKSt6vectorIhSaIhEE': 'noop'},
     bound='name of 0..3 arbitrary bytes, value of 0..3 arbitrary bytes, one trailing byte; Metadata::AddEntryBinary cut',
     covers='MetadataDecoder::DecodeEntry/DecodeName against the entry framing of MetadataEncoder::EncodeMetadata (EncodeString, EncodeVarint, EncoderBuffer::Encode)'),
]
META = {}
