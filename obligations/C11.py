from vlib import Ob
H = 'C11/meta.cc'
D = {'_GLIBCXX_ASSERTIONS': 1}   # also switches off libstdc++'s extern template for basic_string: bodies land in the IR
OBLIGATIONS = [
  Ob('C11.name_rt', H, 'h_name_rt', tier='quick', unwind=10, defines=dict(D, MAXLEN=6), max_alloc=16,
     bound='name of symbolic length 0..6 with arbitrary bytes (small-string storage), one trailing byte',
     covers='MetadataEncoder::EncodeString, MetadataDecoder::DecodeName, std::string (libstdc++ templates instantiated in the TU)'),
  Ob('C11.entry_rt', H, 'h_entry_rt', tier='quick', unwind=8, defines=dict(D, MAXLEN=2, MAXVAL=2), max_alloc=96,
     bound='one entry: name of 0..2 arbitrary bytes, binary value of 0..2 bytes, through the real Metadata object (std::map with the unbalanced-BST model of _Rb_tree_insert_and_rebalance)',
     covers='Metadata::AddEntryBinary/GetEntryBinary, MetadataEncoder::EncodeMetadata/EncodeString, MetadataDecoder::DecodeMetadata/DecodeEntry/DecodeName'),
]
META = {}
