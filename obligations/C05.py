from vlib import Ob
H = 'C05/kernels.cc'
def lut(usb):
    pb = max(12, min(20, 3 * usb // 2))
    return '_ZN5draco11RAnsDecoderILi%dEE24rans_build_look_up_tableEPKjj' % pb
K = [
 ('constants', 'k_constants', {}, 'every enum value / version constant of compression_shared.h, mesh_edgebreaker_shared.h, kMaxNumParallelograms', False, {}),
 ('precision', 'k_precision', {}, 'ComputeRAnsPrecisionFromUniqueSymbolsBitLength for all bit lengths 0..40', False, {}),
 ('varint_u32', 'k_varint_u32', {}, 'DecodeVarint<uint32_t> on 10 symbolic bytes', False, {}),
 ('varint_u64', 'k_varint_u64', {}, 'DecodeVarint<uint64_t>', False, {}),
 ('varint_i32', 'k_varint_i32', {}, 'DecodeVarint<int32_t> (zig-zag)', False, {}),
 ('zigzag', 'k_zigzag', {}, 'ConvertSymbolToSignedInt 32/64', False, {}),
 ('wrap_dec', 'k_wrap_dec', {}, 'PredictionSchemeWrapDecodingTransform::DecodeTransformData + ComputeOriginalValue, any pred/corr', False, {}),
 ('oct_reject', 'k_oct_canon_dec', {}, 'canonicalized octahedron DecodeTransformData: accepted set of max_quantized_value (ComputeOriginalValue skipped)', False, {'QC': 1}),
 ('oct_canon_dec_q2', 'k_oct_canon_dec', {}, 'canonicalized octahedron DecodeTransformData + ComputeOriginalValue at q=2, any pred/corr in the square', False, {'QC': 2}),
 ('oct_plain_dec_q2', 'k_oct_plain_dec', {}, 'octahedron DecodeTransformData + ComputeOriginalValue at q=2', False, {'QC': 2}),
 ('oct_canon_dec_q8', 'k_oct_canon_dec', {}, 'canonicalized octahedron DecodeTransformData + ComputeOriginalValue at q=8, any pred/corr in the square', False, {'QC': 8}),
 ('oct_plain_dec_q8', 'k_oct_plain_dec', {}, 'octahedron DecodeTransformData + ComputeOriginalValue at q=8', False, {'QC': 8}),
 ('oct_canon_dec_q11', 'k_oct_canon_dec', {}, 'canonicalized octahedron DecodeTransformData + ComputeOriginalValue at q=11, any pred/corr in the square', False, {'QC': 11}),
 ('oct_plain_dec_q11', 'k_oct_plain_dec', {}, 'octahedron DecodeTransformData + ComputeOriginalValue at q=11', False, {'QC': 11}),
 ('oct_canon_dec_q16', 'k_oct_canon_dec', {}, 'canonicalized octahedron DecodeTransformData + ComputeOriginalValue at q=16, any pred/corr in the square', False, {'QC': 16}),
 ('oct_plain_dec_q16', 'k_oct_plain_dec', {}, 'octahedron DecodeTransformData + ComputeOriginalValue at q=16', False, {'QC': 16}),
 ('oct_canon_dec_q30', 'k_oct_canon_dec', {}, 'canonicalized octahedron DecodeTransformData + ComputeOriginalValue at q=30, any pred/corr in the square', False, {'QC': 30}),
 ('oct_plain_dec_q30', 'k_oct_plain_dec', {}, 'octahedron DecodeTransformData + ComputeOriginalValue at q=30', False, {'QC': 30}),
 ('pgram', 'k_pgram', {}, 'ComputeParallelogramPrediction on an arbitrary in-range table (2 faces, 4 entries, 2 comps)', False, {}),
 ('rans_init12', 'k_rans_init12', {}, 'RAnsDecoder<12>::read_init/read_end/reader_has_error', False, {}),
 ('rans_init20', 'k_rans_init20', {}, 'RAnsDecoder<20>::read_init', False, {}),
 ('rans_read12', 'k_rans_read12', {}, 'RAnsDecoder<12>::rans_read one step, arbitrary state and table cell', False, {}),
 ('rans_read20', 'k_rans_read20', {}, 'RAnsDecoder<20>::rans_read', False, {}),
 ('rabs_read', 'k_rabs_read', {}, 'rabs_desc_read one step, any state / p0', False, {}),
 ('ans_init', 'k_ans_init', {}, 'ans_read_init / ans_read_end (L_BASE 4096)', False, {}),
 ('rans_tab5', 'k_rans_tab5', {lut(5): 'ret1'}, 'RAnsSymbolDecoder<5>::Create (table parse, version gates) + StartDecoding (LUT cut)', False, {}),
 ('rans_tab18', 'k_rans_tab18', {lut(18): 'ret1'}, 'RAnsSymbolDecoder<18>::Create + StartDecoding', False, {}),
 ('bit_start', 'k_bit_start', {}, 'DecoderBuffer::StartBitDecoding (2.2 gate) / DecodeLeastSignificantBits32 / EndBitDecoding', False, {}),
 ('rans_bit_start', 'k_rans_bit_start', {}, 'RAnsBitDecoder::StartDecoding (2.2 gate) + DecodeNextBit', False, {}),
 ('direct_start', 'k_direct_start', {}, 'DirectBitDecoder::StartDecoding + reads', False, {}),
 ('dequant', 'k_dequant', {}, 'Dequantizer::Init/DequantizeFloat (float ops as uninterpreted functions)', True, {}),
 ('oct_unit_setq', 'k_oct_unit', {}, 'OctahedronToolBox::SetQuantizationBits accepted set (q outside 2..30 rejected)', True, {'QC': 31}),
 ('oct_unit_q2', 'k_oct_unit', {}, 'OctahedronToolBox q=2: QuantizedOctahedralCoordsToUnitVector/CanonicalizeOctahedralCoords, all (s,t) (float ops as UF)', True, {'QC': 2}),
 ('oct_unit_q8', 'k_oct_unit', {}, 'OctahedronToolBox q=8: QuantizedOctahedralCoordsToUnitVector/CanonicalizeOctahedralCoords, all (s,t) (float ops as UF)', True, {'QC': 8}),
 ('oct_unit_q11', 'k_oct_unit', {}, 'OctahedronToolBox q=11: QuantizedOctahedralCoordsToUnitVector/CanonicalizeOctahedralCoords, all (s,t) (float ops as UF)', True, {'QC': 11}),
 ('oct_unit_q16', 'k_oct_unit', {}, 'OctahedronToolBox q=16: QuantizedOctahedralCoordsToUnitVector/CanonicalizeOctahedralCoords, all (s,t) (float ops as UF)', True, {'QC': 16}),
 ('oct_unit_q30', 'k_oct_unit', {}, 'OctahedronToolBox q=30: QuantizedOctahedralCoordsToUnitVector/CanonicalizeOctahedralCoords, all (s,t) (float ops as UF)', True, {'QC': 30}),
 ('texcoords_pred', 'k_texcoords', {'_ZN5draco7IntSqrtEm': 'uf'}, 'MeshPredictionSchemeTexCoordsPortablePredictor::ComputePredictedValue<false> on an arbitrary in-range table, real PointAttribute positions (4 entries); IntSqrt as an uninterpreted function (own kernel)', False, {}),
 ('texcoords_fallback', 'k_texcoords', {'_ZN5draco7IntSqrtEm': 'uf'}, 'tex-coord predictor with coinciding positions: choice of the fall-back neighbour (prev / next / last entry / zero) for every table, entry id and data', False, {'DEGENERATE_POSITIONS': 1}),
 ('seq_conn', 'k_seq_conn', {'_ZN5draco13DecodeSymbolsEjiPNS_13DecoderBufferEPj': 'ret0', '_ZN5draco4Mesh7AddFaceERKSt5arrayINS_9IndexTypeIjNS_20PointIndex_tag_type_EEELm3EE': 'noop'},
  'MeshSequentialDecoder::DecodeConnectivity: header fields, index width per number of points (uint8/uint16/varint/uint32), bytes consumed; Mesh::AddFace and the compressed path cut', False, {}),
 ('intsqrt', 'k_intsqrt', {}, 'IntSqrt for all n < 2^20', False, {}),
]
OBLIGATIONS = []
for name, entry, stubs, what, uf, defs in K:
    OBLIGATIONS.append(Ob('C05.' + name, H, entry, tier={'intsqrt': 'thorough', 'texcoords_pred': 'extended'}.get(name, 'quick'), unwind={'bit_start': 36, 'rans_tab5': 8, 'rans_tab18': 8, 'intsqrt': 24}.get(name, 14), uf_int=(False if name == 'intsqrt' else ('all' if name.startswith('oct_') else True)), engine='tv', stubs=stubs, uf_float=uf, defines=defs, max_alloc=(64 if name.startswith('texcoords') else 16),
        object_bits=10,
        allow_alloc_cut=True, fill_bound=12, diff=False, timeout=(900 if name.startswith('rans_') else None), backend=('kissat' if name == 'texcoords_pred' else 'minisat'),
        bound='current kernel == kernel frozen at the pinned revision, for all inputs of the kernel harness (10 symbolic stream bytes / all integer arguments)',
        covers=what))
OBLIGATIONS.append(Ob('C05.version_gate', 'C05/header.cc', 'h_header', tier='quick', unwind=14, unwindset=['strlen.0:64', 'memcmp.0:8'], defines={'_GLIBCXX_ASSERTIONS': 1}, max_alloc=64, fill_bound=14,
    bound='12 symbolic header bytes with symbolic length, mesh and point-cloud decoder, any previous buffer version; metadata flag clear',
    covers='PointCloudDecoder::Decode / DecodeHeader: magic, geometry type check, version gate (UNKNOWN_VERSION), DecoderBuffer::set_bitstream_version; Status'))
META = {'level': 'translation_validation',
        'explanation': 'each kernel of the current tree is proved observationally equal to its frozen translation (same translator) for all inputs in the bound'}
