from vlib import Ob
H = 'C07/oct.cc'
OBLIGATIONS = [
  Ob('C07.canon', H, 'h_canon', tier='quick', unwind=3, bound='q symbolic 2..30, all (s,t) in [0,2^q-2]^2',
     covers='OctahedronToolBox::SetQuantizationBits, CanonicalizeOctahedralCoords'),
  Ob('C07.int2oct', H, 'h_int2oct', tier='quick', unwind=3, bound='q symbolic 2..30, every integer vector with |x|+|y|+|z| = center',
     covers='OctahedronToolBox::IntegerVectorToQuantizedOctahedralCoords, CanonicalizeOctahedralCoords'),
]
for q, tier in ((2, 'quick'), (3, 'quick'), (8, 'thorough'), (16, 'extended')):
    OBLIGATIONS.append(Ob('C07.canon_intvec_q%d' % q, H, 'h_canon_intvec', tier=tier, unwind=3, defines={'QC': q}, backend='kissat',
        bound='q=%d, every int32 vector (INT32_MIN excluded)' % q, covers='OctahedronToolBox::CanonicalizeIntegerVector<int32_t> (64-bit multiply/divide)'))
for q, tier in ((2, 'quick'), (8, 'quick'), (11, 'thorough'), (16, 'thorough'), (24, 'thorough'), (30, 'thorough')):
    OBLIGATIONS.append(Ob('C07.float2oct_q%d' % q, H, 'h_float2oct', tier=tier, unwind=3, defines={'QC': q}, backend='kissat',
        bound='q=%d, every finite float32 vector incl. zero, denormals, 3.4e38' % q,
        covers='OctahedronToolBox::FloatVectorToQuantizedOctahedralCoords<float> (double division, floor), IntegerVectorToQuantizedOctahedralCoords'))
for q, tier in ((5, 'quick'), (8, 'quick'), (11, 'thorough'), (16, 'thorough')):
    OBLIGATIONS.append(Ob('C07.float2oct_dir_q%d' % q, H, 'h_float2oct_dir', tier=tier, unwind=3, defines={'QC': q}, backend='kissat',
        bound='q=%d, every finite float32 vector with a strictly dominant component (|v_i| > 2|v_j|, |v_i| > 1e-5), incl. magnitudes up to FLT_MAX' % q,
        covers='OctahedronToolBox::FloatVectorToQuantizedOctahedralCoords<float>: direction is preserved (dominant axis and its sign), no loss of range for huge inputs'))
OBLIGATIONS.append(Ob('C07.geom_normal_rt_q5', 'C07/geomnormal.cc', 'h_geom_normal_rt', tier='quick', unwind=12, defines={'QC': 5, 'PREDMAX': 63}, max_alloc=64,
    backend='kissat',
    bound='q=5, every canonical octahedral normal, ANY predicted 3D normal with components in [-63,63] (incl. zero vector and z == 0), 1 entry; the area predictor is replaced by a harness-controlled one',
    covers='MeshPredictionSchemeGeometricNormalEncoder::ComputeCorrectionValues/EncodePredictionData, ...Decoder::DecodePredictionData/ComputeOriginalValues, OctahedronToolBox::CanonicalizeIntegerVector/IntegerVectorToQuantizedOctahedralCoords, canonicalized octahedron transform, RAnsBitEncoder/Decoder (flip bit)'))
META = {}
