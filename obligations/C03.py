from vlib import Ob
# DecodeSymbols (compressed connectivity, connectivity_method == 0) is cut: covered by C02/C08 kernels; here it is
# declared unreachable-or-false via a stub that returns false (the raw-index branches are the subject).
DS = '_ZN5draco13DecodeSymbolsEjiPNS_13DecoderBufferEPj'
OBLIGATIONS = [
  Ob('C03.seq_conn', 'C03/seq.cc', 'h_seq_conn', tier='quick', unwind=7, defines={'NB': 6, 'MAXF': 1}, max_alloc=16, stubs={DS: 'ret0'},
     bound='6 symbolic bytes (symbolic length), bitstream 2.1 and 2.2, <= 1 face; real Mesh/PointCloud objects; compressed-index path (DecodeSymbols) cut',
     covers='MeshSequentialDecoder::DecodeConnectivity (raw index branches uint8/uint16/varint/uint32), Mesh::AddFace, PointCloud::set_num_points'),
]
META = {}
