from vlib import Ob
# DecodeSymbols (compressed connectivity, connectivity_method == 0) is cut: covered by C02/C08 kernels; here it is
# declared unreachable-or-false via a stub that returns false (the raw-index branches are the subject).
DS = '_ZN5draco13DecodeSymbolsEjiPNS_13DecoderBufferEPj'
AP = '_ZN5draco26MeshEdgebreakerDecoderImplINS_31MeshEdgebreakerTraversalDecoderEE21AssignPointsToCornersEi'
OBLIGATIONS = [
  Ob('C03.seq_conn', 'C03/seq.cc', 'h_seq_conn', tier='quick', unwind=7, defines={'NB': 6, 'MAXF': 1}, max_alloc=16, stubs={DS: 'ret0'},
     bound='6 symbolic bytes (symbolic length), bitstream 2.1 and 2.2, <= 1 face; real Mesh/PointCloud objects; compressed-index path (DecodeSymbols) cut',
     covers='MeshSequentialDecoder::DecodeConnectivity (raw index branches uint8/uint16/varint/uint32), Mesh::AddFace, PointCloud::set_num_points'),
  Ob('C03.eb_attr_claim', 'C03/ebattr.cc', 'h_eb_attr_claim', tier='quick', unwind=6, defines={'NB': 4, 'NSLOT': 2}, max_alloc=32, ub=True, flavour='nospec',
     bound='4 symbolic header bytes (symbolic length), every bitstream version 1.2..2.2, 0..2 attribute-data slots with arbitrary binding state, decoder id 0..7; headers that go on to build a traversal sequencer are cut',
     covers='MeshEdgebreakerDecoderImpl<MeshEdgebreakerTraversalDecoder>::CreateAttributesDecoder (slot binding, range and re-binding guards, traversal-method validation) on the real decoder objects'),
]
for nm, tier, defs, be, to, pre in (('eb_assign', 'quick', {'PREFIX': 0}, 'minisat', 900, 'no point created before'),
                                ('eb_assign_p16', 'quick', {'PREFIX': 65535}, 'minisat', 900, '65535 points created before (new ids cross the 16-bit boundary)'),
                                ('eb_assign_any', 'thorough', {'ANY_PREFIX': 1}, 'kissat', 1700, 'ANY number (< 2^31) of points created before')):
    d = {'NF': 2, 'NV': 4, 'NA': 1}; d.update(defs)
    OBLIGATIONS.append(Ob('C03.' + nm, 'C03/ebassign.cc', 'h_eb_assign', tier=tier, unwind=7, defines=d, max_alloc=64, mem_gb=20, timeout=to, backend=be,
     unwindset=[AP + '.3:3', AP + '.5:3', AP + '.4:2', AP + '.6:2', AP + '.2:2'],
     stubs={'_ZNSt6vectorIbSaIbEE13_M_insert_auxESt13_Bit_iteratorb': 'unreachable'},
     bound='ANY corner table of 2 faces over <= 4 vertices satisfying the C13 invariants (assumed), 0..1 attribute connectivity with arbitrary corner->vertex map and seam flags, arbitrary boundary flags, ' + pre,
     covers='MeshEdgebreakerDecoderImpl<MeshEdgebreakerTraversalDecoder>::AssignPointsToCorners on real Mesh / MeshEdgebreakerDecoder / CornerTable / MeshAttributeCornerTable objects; Mesh::SetNumFaces, SetFace, PointCloud::set_num_points'))
OBLIGATIONS += [
]
META = {
  'assumptions': ['C03.seq_conn: compressed-index path (DecodeSymbols) cut by a stub returning false',
                  'C03.eb_attr_claim: headers that go on to build a traversal sequencer are cut (decoder type per-corner with a non-depth-first traversal method only)',
                  'C03.eb_assign pre-state: corner table satisfies the C13 invariants (symmetric edge-consistent opposite; representative corner of each vertex is the left-most corner of an open fan or any corner of a closed fan; every corner lies on the fan of its vertex); a vertex not flagged in is_vert_hole_ is interior; num_connectivity_verts == number of vertices of the table'],
  'outside': ['the symbol-driven Edgebreaker connectivity decoding loop (std::unordered_map) and whether it establishes the assumed invariants for every accepted stream', 'kd-tree decoder output', 'point -> attribute value maps built by the attribute decoders', 'attribute storage sizes'],
}
