from vlib import Ob
H = 'C13/ct.cc'
# push_back on vectors the harness adopted with enough capacity never grows; vector<bool> never leaves its first word
BR = '_ZN5draco11CornerTable21BreakNonManifoldEdgesEv'
NOGROW = {'_ZNSt6vectorIN5draco9IndexTypeIjNS0_21CornerIndex_tag_type_EEESaIS3_EE17_M_realloc_insertIJRKS3_EEEvN9__gnu_cxx17__normal_iteratorIPS3_S5_EEDpOT_': 'unreachable',
          '_ZNSt6vectorIN5draco9IndexTypeIjNS0_21VertexIndex_tag_type_EEESaIS3_EE17_M_realloc_insertIJRKS3_EEEvN9__gnu_cxx17__normal_iteratorIPS3_S5_EEDpOT_': 'unreachable',
          '_ZNSt6vectorIbSaIbEE13_M_insert_auxESt13_Bit_iteratorb': 'unreachable'}
OBLIGATIONS = [
  Ob('C13.opposite_2', H, 'h_opposite', tier='quick', unwind=8, defines={'NF': 2, 'NV': 4}, max_alloc=64,
     bound='every list of 2 triangles over vertex ids 0..3 (degenerate, mirrored, duplicated included)',
     covers='CornerTable::ComputeOppositeCorners'),
  Ob('C13.break_2', H, 'h_break', tier='quick', unwind=7, mem_gb=20, timeout=900, defines={'NF': 2, 'NV': 4}, max_alloc=64,
     unwindset=[BR + '.0:3', BR + '.1:3', BR + '.2:3', BR + '.3:7', BR + '.4:3'],
     bound='ANY consistent table of 2 triangles over vertex ids 0..3 (inductive pre-state = post-condition of phase 1)',
     covers='CornerTable::BreakNonManifoldEdges'),
  Ob('C13.vertex_corners_2', H, 'h_vertex_corners', tier='quick', unwind=8, mem_gb=20, timeout=900, defines={'NF': 2, 'NV': 4}, max_alloc=64, stubs=NOGROW,
     bound='ANY consistent table of 2 triangles over vertex ids 0..3, any vertex count covering the ids',
     covers='CornerTable::ComputeVertexCorners, num_vertices, VertexParent data'),
  Ob('C13.opposite_2v3', H, 'h_opposite', tier='quick', unwind=8, defines={'NF': 2, 'NV': 3}, max_alloc=64, timeout=900,
     bound='every list of 2 triangles over vertex ids 0..2', covers='CornerTable::ComputeOppositeCorners'),
  Ob('C13.break_3', H, 'h_break', tier='thorough', unwind=10, backend='kissat', defines={'NF': 3, 'NV': 5}, max_alloc=64, mem_gb=20,
     unwindset=[BR + '.0:4', BR + '.1:4', BR + '.2:4', BR + '.3:10', BR + '.4:5'],
     bound='ANY consistent table of 3 triangles over vertex ids 0..4', covers='CornerTable::BreakNonManifoldEdges'),
  Ob('C13.vertex_corners_3', H, 'h_vertex_corners', tier='thorough', unwind=11, defines={'NF': 3, 'NV': 5}, max_alloc=64, stubs=NOGROW, mem_gb=20,
     bound='ANY consistent table of 3 triangles over vertex ids 0..4, any vertex count covering the ids',
     covers='CornerTable::ComputeVertexCorners, num_vertices, VertexParent data'),
  Ob('C13.init_2', H, 'h_init', tier='thorough', unwind=8, defines={'NF': 2, 'NV': 4}, max_alloc=64, stubs=NOGROW, mem_gb=20,
     unwindset=[BR + '.0:3', BR + '.1:3', BR + '.2:3', BR + '.3:7', BR + '.4:3'],
     bound='the whole construction on every list of 2 triangles over vertex ids 0..3', covers='CornerTable::Init = ComputeOppositeCorners + BreakNonManifoldEdges + ComputeVertexCorners, VertexParent, LeftMostCorner'),
  Ob('C13.break_4', H, 'h_break', tier='extended', unwind=13, backend='kissat', defines={'NF': 4, 'NV': 5}, max_alloc=64, mem_gb=30,
     unwindset=[BR + '.0:5', BR + '.1:5', BR + '.2:5', BR + '.3:13', BR + '.4:5'],
     bound='ANY consistent table of 4 triangles over vertex ids 0..4', covers='CornerTable::BreakNonManifoldEdges'),
  Ob('C13.break_3c', H, 'h_break', tier='extended', unwind=10, backend='cadical', defines={'NF': 3, 'NV': 5}, max_alloc=64, mem_gb=20,
     unwindset=[BR + '.0:4', BR + '.1:4', BR + '.2:4', BR + '.3:10', BR + '.4:5'], bound='x', covers='x'),
]
META = {}
