from vlib import Ob
# C13: the construction of the corner table, decomposed into its three phases (each phase starts from an ARBITRARY state
# satisfying the post-condition of the previous one, so the three obligations compose to CornerTable::Init), plus the
# whole Init on two triangles.  Bounds are small: the symbolic encoding of this pointer-heavy code is expensive.
H = 'C13/ct.cc'
BR = '_ZN5draco11CornerTable21BreakNonManifoldEdgesEv'
RV = '_ZN5draco24MeshAttributeCornerTable25RecomputeVerticesInternalILb0EEEbPKNS_4MeshEPKNS_14PointAttributeE'
# push_back on vectors the harness adopted with enough capacity never grows; vector<bool> never leaves its first word
NOGROW = {'_ZNSt6vectorIN5draco9IndexTypeIjNS0_21CornerIndex_tag_type_EEESaIS3_EE17_M_realloc_insertIJRKS3_EEEvN9__gnu_cxx17__normal_iteratorIPS3_S5_EEDpOT_': 'unreachable',
          '_ZNSt6vectorIN5draco9IndexTypeIjNS0_21VertexIndex_tag_type_EEESaIS3_EE17_M_realloc_insertIJRKS3_EEEvN9__gnu_cxx17__normal_iteratorIPS3_S5_EEDpOT_': 'unreachable',
          '_ZNSt6vectorIbSaIbEE13_M_insert_auxESt13_Bit_iteratorb': 'unreachable'}
def br_bounds(nf, passes):
    return [BR + '.0:%d' % (nf + 1), BR + '.1:%d' % (nf + 1), BR + '.2:%d' % (nf + 1), BR + '.3:%d' % (3 * nf + 1), BR + '.4:%d' % passes]
OBLIGATIONS = [
  Ob('C13.opposite_2v3', H, 'h_opposite', tier='quick', unwind=8, defines={'NF': 2, 'NV': 3}, max_alloc=64, timeout=900,
     bound='phase 1 on EVERY list of 2 triangles over vertex ids 0..2 (degenerate, mirrored, duplicated included)',
     covers='CornerTable::ComputeOppositeCorners'),
  Ob('C13.break_2', H, 'h_break', tier='quick', unwind=7, defines={'NF': 2, 'NV': 4}, max_alloc=64, mem_gb=20, timeout=900, unwindset=br_bounds(2, 3),
     bound='phase 2 from ANY consistent table of 2 triangles over vertex ids 0..3 (pre-state = post-condition of phase 1); with 2 faces the edge-breaking branch is unreachable, this decides termination and that nothing is changed',
     covers='CornerTable::BreakNonManifoldEdges'),
  Ob('C13.vertex_corners_2', H, 'h_vertex_corners', tier='quick', unwind=8, defines={'NF': 2, 'NV': 4}, max_alloc=64, stubs=NOGROW, mem_gb=20, timeout=900,
     bound='phase 3 from ANY consistent table of 2 triangles over vertex ids 0..3, any vertex count covering the ids',
     covers='CornerTable::ComputeVertexCorners, num_vertices, vertex parents'),
  Ob('C13.opposite_2', H, 'h_opposite', tier='thorough', unwind=8, defines={'NF': 2, 'NV': 4}, max_alloc=64,
     bound='phase 1 on EVERY list of 2 triangles over vertex ids 0..3', covers='CornerTable::ComputeOppositeCorners'),
  Ob('C13.break_3', H, 'h_break', tier='thorough', unwind=10, backend='kissat', defines={'NF': 3, 'NV': 5}, max_alloc=64, mem_gb=20, timeout=3400, unwindset=br_bounds(3, 5),
     bound='phase 2 from ANY consistent table of 3 triangles over vertex ids 0..4 (a fold can be detected but no link can be removed below 4 faces: decides termination and that nothing is changed)',
     covers='CornerTable::BreakNonManifoldEdges'),
  Ob('C13.vertex_corners_3', H, 'h_vertex_corners', tier='thorough', unwind=11, defines={'NF': 3, 'NV': 5}, max_alloc=64, stubs=NOGROW, mem_gb=20,
     bound='phase 3 from ANY consistent table of 3 triangles over vertex ids 0..4, any vertex count covering the ids',
     covers='CornerTable::ComputeVertexCorners, num_vertices, vertex parents'),
  Ob('C13.init_2', H, 'h_init', tier='thorough', unwind=8, defines={'NF': 2, 'NV': 4}, max_alloc=64, stubs=NOGROW, mem_gb=20, unwindset=br_bounds(2, 3),
     bound='the whole construction on EVERY list of 2 triangles over vertex ids 0..3',
     covers='CornerTable::Init = ComputeOppositeCorners + BreakNonManifoldEdges + ComputeVertexCorners, VertexParent, LeftMostCorner'),
  Ob('C13.attr_vertices', 'C13/attrct.cc', 'h_attr_vertices', tier='quick', unwind=7, unwindset=[RV + '.0:3', RV + '.1:3', RV + '.2:6'], defines={'NF': 2, 'NV': 4}, max_alloc=64, mem_gb=20, timeout=900,
     stubs={'_ZNSt6vectorIbSaIbEE13_M_insert_auxESt13_Bit_iteratorb': 'unreachable'},
     bound='ANY base table of 2 faces over <= 4 vertices satisfying the C13 invariants (assumed = asserted by the phase obligations), ANY symmetric set of seam edges',
     covers='MeshAttributeCornerTable::RecomputeVertices / RecomputeVerticesInternal<false>, SwingLeft/SwingRight/Opposite over seams, LeftMostCorner, num_vertices'),
  Ob('C13.attr_vertices_3', 'C13/attrct.cc', 'h_attr_vertices', tier='thorough', unwind=10, unwindset=[RV + '.0:4', RV + '.1:4', RV + '.2:6'], defines={'NF': 3, 'NV': 4}, max_alloc=64, mem_gb=20, timeout=3000, backend='kissat',
     stubs={'_ZNSt6vectorIbSaIbEE13_M_insert_auxESt13_Bit_iteratorb': 'unreachable'},
     bound='ANY base table of 3 faces over <= 4 vertices satisfying the C13 invariants, ANY symmetric set of seam edges',
     covers='MeshAttributeCornerTable::RecomputeVertices / RecomputeVerticesInternal<false>'),
  Ob('C13.break_4', H, 'h_break', tier='extended', unwind=13, backend='kissat', defines={'NF': 4, 'NV': 5}, max_alloc=64, mem_gb=30, unwindset=br_bounds(4, 5),
     bound='phase 2 from ANY consistent table of 4 triangles over vertex ids 0..4 (not registered: no verdict within the thorough cap)',
     covers='CornerTable::BreakNonManifoldEdges'),
  Ob('C13.break_3_hits', H, 'h_break', tier='extended', unwind=10, backend='kissat', defines={'NF': 3, 'NV': 5, 'BREAK_HITS': 1}, max_alloc=64, mem_gb=20, unwindset=br_bounds(3, 5),
     bound='reachability twin of C13.break_3: its vacuity witness is reachable only if some link is removed (comes back unreachable for 3 faces)', covers='CornerTable::BreakNonManifoldEdges'),
]
META = {
  'explanation': 'CornerTable::Init = ComputeOppositeCorners; BreakNonManifoldEdges; ComputeVertexCorners. Each phase is decided from an arbitrary state satisfying the post-condition of the previous phase (predicate opposite_ok_at in harness/C13/ct.cc), so the phase obligations compose to Init for the stated sizes; init_2 decides the composition directly on two triangles.',
  'assumptions': ['phase 2 and 3 pre-state: opposite is a symmetric pairing of corners of two different non-degenerate non-mirrored faces across a shared oppositely oriented edge (= asserted post-condition of phase 1 / phase 2)',
                  'libstdc++ vector growth replaced by contract models: resize within reserved capacity = append (verif_vecmodel_fill.h), push_back growth of the local sink_vertices vector = one static pool (verif_vecmodel_grow.h), push_back on harness-reserved member vectors never reallocates (asserted by an unreachable-stub)',
                  'vertex ids < 4 (5 in the thorough tier), 2 faces (3 in the thorough tier)'],
  'outside': ['tables with more than 3 faces (the seeded defects C13-a/b need 4-5 faces)', 'MeshAttributeCornerTable', 'CreateCornerTableFromPositionAttribute / FromAllAttributes', 'valence cache'],
}
