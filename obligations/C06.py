from vlib import Ob
H = 'C06/det.cc'
LUT12 = '_ZN5draco11RAnsDecoderILi12EE24rans_build_look_up_tableEPKjj'
OBLIGATIONS = [
  Ob('C06.trailing_varint_u32', H, 'h_trailing_varint_u32', tier='quick', unwind=10, defines={'NB': 8}, fill_bound=10,
     bound='two 8-byte buffers with symbolic lengths, equal on the consumed prefix, arbitrary elsewhere', covers='DecodeVarint<uint32_t>, DecoderBuffer'),
  Ob('C06.trailing_varint_u64', H, 'h_trailing_varint_u64', tier='quick', unwind=14, defines={'NB': 12}, fill_bound=14,
     bound='two 12-byte buffers', covers='DecodeVarint<uint64_t>'),
  Ob('C06.trailing_bits', H, 'h_trailing_bits', tier='quick', unwind=36, defines={'NB': 8}, fill_bound=10,
     bound='two 8-byte buffers, one bit field of symbolic width 0..32, with/without size prefix, any version', covers='DecoderBuffer::StartBitDecoding/DecodeLeastSignificantBits32/EndBitDecoding'),
  Ob('C06.trailing_direct', H, 'h_trailing_direct', tier='quick', unwind=14, defines={'NB': 12}, fill_bound=14, max_alloc=16, allow_alloc_cut=True,
     bound='two 12-byte buffers, one field of symbolic width', covers='DirectBitDecoder::StartDecoding/DecodeLeastSignificantBits32'),
  Ob('C06.trailing_rans_bit', H, 'h_trailing_rans_bit', tier='quick', unwind=10, defines={'NB': 8}, fill_bound=10, backend='kissat',
     bound='two 8-byte buffers, 1 decoded bit', covers='RAnsBitDecoder::StartDecoding/DecodeNextBit, ans_read_init, rabs_desc_read'),
  Ob('C06.trailing_rans_tab', H, 'h_trailing_rans_tab', tier='quick', unwind=10, defines={'NB': 8, 'USB': 5}, fill_bound=10, max_alloc=16, allow_alloc_cut=True,
     stubs={LUT12: 'ret1'},
     bound='two 8-byte buffers, <= 4 symbols', covers='RAnsSymbolDecoder<5>::Create (LUT cut)/StartDecoding, RAnsDecoder::read_init'),
  Ob('C06.reuse_direct', H, 'h_reuse_direct', tier='quick', unwind=20, defines={'NF': 2}, max_alloc=16,
     bound='2 fields of symbolic width/value after an arbitrary 1-field history (finished or abandoned)', covers='DirectBitEncoder::StartEncoding/Clear/EncodeLeastSignificantBits32/EndEncoding'),
  Ob('C06.bits_det', H, 'h_bits_det', tier='quick', unwind=20, max_alloc=16, defines={'DW1': 5, 'DW2': 12},
     bound='2 fields of widths 5 and 12, with/without size; second buffer has a history and different heap garbage', covers='EncoderBuffer::StartBitEncoding/EncodeLeastSignificantBits32/EndBitEncoding/Clear'),
  Ob('C06.pred_dec_multi_det', 'C02/preddec.cc', 'h_multi_det', tier='quick', unwind=10, max_alloc=16, uf_int=True, defines={'NE': 2, 'NCOMP': 1},
     bound='arbitrary in-range table (2 faces), 2 entries x 1 component, any corrections and wrap bounds; fresh heap blocks hold arbitrary bytes',
     covers='MeshPredictionSchemeMultiParallelogramDecoder::ComputeOriginalValues run twice (self-composition): no dependence on uninitialised heap'),
  Ob('C06.pred_dec_pgram_det', 'C02/preddec.cc', 'h_pgram_det', tier='quick', unwind=10, max_alloc=16, uf_int=True, defines={'NE': 3, 'NCOMP': 1},
     bound='arbitrary in-range table, 3 entries x 1 component', covers='MeshPredictionSchemeParallelogramDecoder::ComputeOriginalValues run twice'),
  Ob('C06.header_version', 'C05/header.cc', 'h_header', tier='quick', unwind=14, unwindset=['strlen.0:64', 'memcmp.0:8'], defines={'_GLIBCXX_ASSERTIONS': 1}, max_alloc=64, fill_bound=14,
     bound='12 symbolic header bytes, DecoderBuffer re-initialised with the two-argument Init after an arbitrary earlier version',
     covers='PointCloudDecoder::Decode sets the buffer version from the header regardless of the buffer history (decoder reuse)'),
]
META = {}
