from vlib import Ob
H = 'C10/attr.cc'
OBLIGATIONS = [
  Ob('C12.bypass', H, 'h_bypass', tier='quick', unwind=6, defines={'NCOMP': 3}, max_alloc=64,
     bound='any q (int32), origin/range any float bit pattern, 3 components',
     covers='AttributeQuantizationTransform::SetParameters/IsQuantizationValid/ComputeParameters (already-initialised guard)'),
  Ob('C12.local', H, 'h_local', tier='quick', unwind=6, defines={'NCOMP': 2}, max_alloc=160, uf_float=True,
     bound='q symbolic 1..30, 2 points x 2 components, float +,-,*,/ abstracted as uninterpreted functions (sound for this equality), ALL float bit patterns for origin, range, the shared point and both variants of the other point',
     covers='AttributeQuantizationTransform::SetParameters/InitTransformedAttribute/TransformAttribute/GeneratePortableAttribute/InverseTransformAttribute on real PointAttributes (2-safety)'),
  Ob('C12.methods_agree', H, 'h_methods_agree', tier='quick', unwind=6, defines={'NCOMP': 1}, max_alloc=160, uf_float=True,
     bound='1 point x 1 component, q symbolic 1..30, every float bit pattern for origin, range and the coordinate (UF floats, refined with exact semantics on a counterexample)',
     covers='AttributeQuantizationTransform::TransformAttribute -> both GeneratePortableAttribute overloads (all points / point id list), Quantizer::Init/QuantizeFloat'),
  Ob('C12.init_explicit', 'C12/qinit.cc', 'h_init_explicit', tier='quick', unwind=6, unwindset=['strlen.0:24'], defines={'_GLIBCXX_ASSERTIONS': 1}, max_alloc=64, timeout=900,
     bound='2 float attributes of arbitrary semantic type and 1..3 components, explicit quantization requested for either of them, ARBITRARY option values under every key 0..3 (bits, origin, range, set flags); option store replaced by a table model',
     covers='SequentialQuantizationAttributeEncoder::Init, SequentialIntegerAttributeEncoder::Init, SequentialAttributeEncoder::Init, GetPredictionMethodFromOptions, AttributeQuantizationTransform::SetParameters on real PointCloud / PointAttribute / encoder objects'),
  Ob('C12.kd_init_explicit', 'C12/kdinit.cc', 'h_kd_init_explicit', tier='quick', unwind=6, unwindset=['strlen.0:24'], defines={'_GLIBCXX_ASSERTIONS': 1}, max_alloc=64, timeout=900, mem_gb=20, uf_float=True, fill_bound=6, diff=False, nodiff_reason='the quantization of the values is cut by stubs on the model side only',
     stubs={'_ZN5draco18AttributeTransform24InitTransformedAttributeERKNS_14PointAttributeEi': 'havoc',
            '_ZN5draco30AttributeQuantizationTransform18TransformAttributeERKNS_14PointAttributeERKSt6vectorINS_9IndexTypeIjNS_20PointIndex_tag_type_EEESaIS7_EEPS1_': 'ret1'},
     bound='(creation and filling of the portable attribute cut by stubs: the subject is the choice of the parameters) kd-tree attributes encoder with one float attribute (1 value x 1 component, any float) at attribute id 1 of arbitrary semantic type (its type enum value differs from its id in general), explicit quantization requested with ANY positive range, ARBITRARY option values under every key 0..3; option store replaced by a table model',
     covers='KdTreeAttributesEncoder::TransformAttributesToPortableFormat (float path), AttributeQuantizationTransform::SetParameters / InitTransformedAttribute / TransformAttribute'),
]
META = {}
