from vlib import Ob
H = 'C17/prims.cc'
OBLIGATIONS = []
for w in (8, 16, 32, 64):
    OBLIGATIONS.append(Ob('C17.zigzag%d' % w, H, 'h_zigzag%d' % w, tier='quick', unwind=2,
        bound='all %d-bit values, both directions' % w, covers='ConvertSignedIntToSymbol / ConvertSymbolToSignedInt <int%d_t>' % w))
for t, bits in (('u8', 8), ('u16', 16), ('u32', 32), ('u64', 64), ('i32', 32), ('i64', 64)):
    OBLIGATIONS.append(Ob('C17.varint_%s' % t, H, 'h_varint_%s' % t, tier='quick', unwind=bits // 7 + 3, max_alloc=16,
        bound='all %d-bit values; one trailing byte' % bits,
        covers='EncodeVarint<%s> -> EncoderBuffer::Encode -> DecoderBuffer::Decode -> DecodeVarint<%s> (recursive DecodeVarintUnsigned)' % (t, t)))
OBLIGATIONS.append(Ob('C17.varint_grow_u32', H, 'h_varint_grow_u32', tier='quick', unwind=9, max_alloc=16,
    bound='all uint32; real std::vector growth of the EncoderBuffer (chunks of 16 B)', covers='EncodeVarint<uint32_t> through std::vector<char>::insert reallocation'))
for t in ('u8', 'u16', 'u32', 'u64', 'i32', 'float', 'double'):
    OBLIGATIONS.append(Ob('C17.scalar_%s' % t, H, 'h_scalar_%s' % t, tier='quick', unwind=10, max_alloc=32,
        bound='all bit patterns, two values back to back', covers='EncoderBuffer::Encode<T>, DecoderBuffer::Decode<T>/Peek<T>'))
B = 'C17/bits.cc'
for w1, w2, tier in ((7, 32, 'quick'), (1, 9, 'quick'), (8, 8, 'thorough'), (31, 1, 'thorough'), (32, 32, 'thorough'), (9, 31, 'thorough')):
    OBLIGATIONS.append(Ob('C17.bits_rt_%d_%d' % (w1, w2), B, 'h_bits_rt', tier=tier, unwind=34, defines={'W1': w1, 'W2': w2}, max_alloc=32,
        bound='2 bit fields of widths %d and %d with any values, with and without stored size, stream version 2.2, leading byte and trailing uint32' % (w1, w2),
        covers='EncoderBuffer::StartBitEncoding/EncodeLeastSignificantBits32/EndBitEncoding, BitEncoder::PutBits, DecoderBuffer::StartBitDecoding/DecodeLeastSignificantBits32/EndBitDecoding, BitDecoder::GetBits'))
OBLIGATIONS.append(Ob('C17.bits_two_seq', B, 'h_bits_two_seq', tier='quick', unwind=34, defines={'W1': 5, 'W2': 9}, max_alloc=48,
    bound='two bit regions (5 and 9 bits) on the same EncoderBuffer, both size flags symbolic, optional Clear() in between, 8-byte header, bytes between and after',
    covers='EncoderBuffer::StartBitEncoding/EndBitEncoding/Clear state across regions (encode_bit_sequence_size_, bit_encoder_reserved_bytes_), DecoderBuffer bit decoding'))
OBLIGATIONS.append(Ob('C17.bits_past', B, 'h_bits_past', tier='quick', unwind=34, ub=True, flavour='nospec',
    bound='4 symbolic bytes, symbolic length <= 4; 64+ bits read', covers='DecoderBuffer::BitDecoder::GetBit past the end'))
OBLIGATIONS.append(Ob('C17.direct_rt_2', B, 'h_direct_rt', tier='quick', unwind=18, defines={'NF': 2}, max_alloc=24,
    bound='2 fields of SYMBOLIC width 1..32 + 1 bit; any values', covers='DirectBitEncoder::EncodeLeastSignificantBits32/EncodeBit/EndEncoding, DirectBitDecoder::StartDecoding/DecodeLeastSignificantBits32/DecodeNextBit'))
OBLIGATIONS.append(Ob('C17.direct_rt_3', B, 'h_direct_rt', tier='thorough', unwind=22, defines={'NF': 3}, max_alloc=24,
    bound='3 fields of symbolic width', covers='as C17.direct_rt_2'))
for p0, tier in [(1, 'quick'), (128, 'quick'), (255, 'quick')] + [(p, 'thorough') for p in (2, 3, 64, 127, 129, 192, 253, 254)]:
    OBLIGATIONS.append(Ob('C17.rabs_step_p%d' % p0, B, 'h_rabs_step', tier=tier, unwind=3, defines={'P0C': p0}, backend='kissat',
        bound='p0=%d, every normalised state x in [4096, 2^20), both bit values' % p0, covers='rabs_desc_write, rabs_desc_read, fastdiv (DRACO_ANS_DIVREM)'))
OBLIGATIONS.append(Ob('C17.rbit_rt_2', B, 'h_rbit_rt', tier='thorough', unwind=12, defines={'NBITS': 2}, max_alloc=64,
    bound='every 2-bit sequence', covers='RAnsBitEncoder::EncodeBit/EndEncoding (probability clamp, rabs_write, ans_write_end), RAnsBitDecoder::StartDecoding/DecodeNextBit'))
K = 'C17/coders.cc'
OBLIGATIONS.append(Ob('C17.adaptive_clamp', K, 'h_clamp', tier='quick', unwind=3, ub=True, flavour='nospec', backend='kissat',
    bound='every double p in [0,1], both bit values', covers='clamp_probability, update_probability (adaptive_rans_bit_coding_shared.h)'))
OBLIGATIONS.append(Ob('C17.adaptive_rt_3', K, 'h_adaptive_rt', tier='quick', unwind=12, defines={'NBITS': 3}, max_alloc=32, backend='kissat',
    bound='every 3-bit sequence', covers='AdaptiveRAnsBitEncoder::EncodeBit/EndEncoding, AdaptiveRAnsBitDecoder::StartDecoding/DecodeNextBit, rabs_desc_write/read'))
META = {}
