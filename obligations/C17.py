from vlib import Ob
H = 'C17/prims.cc'
OBLIGATIONS = []
for w in (8, 16, 32, 64):
    OBLIGATIONS.append(Ob('C17.zigzag%d' % w, H, 'h_zigzag%d' % w, tier='quick', unwind=2,
        bound='all %d-bit values, both directions' % w, covers='ConvertSignedIntToSymbol / ConvertSymbolToSignedInt <int%d_t>' % w))
for t, bits in (('u8', 8), ('u16', 16), ('u32', 32), ('u64', 64), ('i32', 32), ('i64', 64)):
    OBLIGATIONS.append(Ob('C17.varint_%s' % t, H, 'h_varint_%s' % t, tier='quick', unwind=bits // 7 + 3, max_alloc=16,
        bound='all %d-bit values; one trailing byte' % bits,
        covers='EncodeVarint<%s> -> EncoderBuffer::Encode -> DecoderBuffer::Decode -> DecodeVarint<%s> (recursive DecodeVarintUnsigned)' % (t, t)))
OBLIGATIONS.append(Ob('C17.varint_grow_u32', H, 'h_varint_grow_u32', tier='quick', unwind=9, max_alloc=16,
    bound='all uint32; real std::vector growth of the EncoderBuffer (chunks of 16 B)', covers='EncodeVarint<uint32_t> through std::vector<char>::insert reallocation'))
for t in ('u8', 'u16', 'u32', 'u64', 'i32', 'float', 'double'):
    OBLIGATIONS.append(Ob('C17.scalar_%s' % t, H, 'h_scalar_%s' % t, tier='quick', unwind=10, max_alloc=32,
        bound='all bit patterns, two values back to back', covers='EncoderBuffer::Encode<T>, DecoderBuffer::Decode<T>/Peek<T>'))
META = {}
