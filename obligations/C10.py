from vlib import Ob
H = 'C10/attr.cc'
OBLIGATIONS = [
  Ob('C10.params_rt', H, 'h_qparams_rt', tier='quick', unwind=6, defines={'NCOMP': 3}, max_alloc=64,
     bound='q symbolic 1..30, 3 min values and range: any float32 bit pattern (incl. NaN/Inf)',
     covers='AttributeQuantizationTransform::SetParameters/CopyToAttributeTransformData/InitFromAttribute, AttributeTransform::TransferToAttribute, AttributeTransformData::Append/GetParameterValue, DataBuffer'),
  Ob('C10.octparams_rt', H, 'h_octparams_rt', tier='quick', unwind=6, max_alloc=64,
     bound='q symbolic 2..30', covers='AttributeOctahedronTransform::SetParameters/CopyToAttributeTransformData/InitFromAttribute'),
  Ob('C10.inverse_eq', H, 'h_inverse_eq', tier='quick', unwind=6, uf_float=True, defines={'NCOMP': 2}, max_alloc=64,
     bound='1 value x 2 components of ANY int32, q symbolic 1..30, parameters any float bit pattern',
     covers='AttributeQuantizationTransform::InverseTransformAttribute with the decoder\'s transform vs with the description re-read via InitFromAttribute; Dequantizer'),
  Ob('C10.normal_dec_desc', 'C10/normaldec.cc', 'h_normal_dec_desc', tier='quick', unwind=8, max_alloc=160, fill_bound=6,
     bound='every supported bitstream version 1.0 .. 2.3, 4 symbolic parameter bytes with symbolic length, real SequentialNormalAttributeDecoder / PointAttribute objects',
     covers='SequentialNormalAttributeDecoder::DecodeDataNeededByPortableTransform (2.0 gate), AttributeOctahedronTransform::DecodeParameters/TransferToAttribute/InitFromAttribute'),
]
META = {}
