from vlib import Ob
H = 'C10/attr.cc'
OBLIGATIONS = [
  Ob('C10.params_rt', H, 'h_qparams_rt', tier='quick', unwind=6, defines={'NCOMP': 3}, max_alloc=64,
     bound='q symbolic 1..30, 3 min values and range: any float32 bit pattern (incl. NaN/Inf)',
     covers='AttributeQuantizationTransform::SetParameters/CopyToAttributeTransformData/InitFromAttribute, AttributeTransform::TransferToAttribute, AttributeTransformData::Append/GetParameterValue, DataBuffer'),
  Ob('C10.octparams_rt', H, 'h_octparams_rt', tier='quick', unwind=6, max_alloc=64,
     bound='q symbolic 2..30', covers='AttributeOctahedronTransform::SetParameters/CopyToAttributeTransformData/InitFromAttribute'),
  Ob('C10.inverse_eq', H, 'h_inverse_eq', tier='quick', unwind=6, uf_float=True, defines={'NCOMP': 2}, max_alloc=64,
     bound='1 value x 2 components of ANY int32, q symbolic 1..30, parameters any float bit pattern',
     covers='AttributeQuantizationTransform::InverseTransformAttribute with the decoder\'s transform vs with the description re-read via InitFromAttribute; Dequantizer'),
]
META = {}
