from vlib import Ob
H = 'C10/attr.cc'
OBLIGATIONS = [
  Ob('C10.params_rt', H, 'h_qparams_rt', tier='quick', unwind=6, defines={'NCOMP': 3}, max_alloc=64,
     bound='q symbolic 1..30, 3 min values and range: any float32 bit pattern (incl. NaN/Inf)',
     covers='AttributeQuantizationTransform::SetParameters/CopyToAttributeTransformData/InitFromAttribute, AttributeTransform::TransferToAttribute, AttributeTransformData::Append/GetParameterValue, DataBuffer'),
  Ob('C10.params_reuse', H, 'h_qparams_reuse', tier='quick', unwind=6, defines={'NCOMP': 2}, max_alloc=64,
     bound='transform object with ANY earlier parameters of 1..3 components, then q symbolic 1..30, 2 min values and range: any float32 bit pattern',
     covers='AttributeQuantizationTransform::SetParameters on a used object, CopyToAttributeTransformData, InitFromAttribute'),
  Ob('C10.octparams_rt', H, 'h_octparams_rt', tier='quick', unwind=6, max_alloc=64,
     bound='q symbolic 2..30', covers='AttributeOctahedronTransform::SetParameters/CopyToAttributeTransformData/InitFromAttribute'),
  Ob('C10.inverse_eq', H, 'h_inverse_eq', tier='quick', unwind=6, uf_float=True, defines={'NCOMP': 2}, max_alloc=64,
     bound='1 value x 2 components of ANY int32, q symbolic 1..30, parameters any float bit pattern',
     covers='AttributeQuantizationTransform::InverseTransformAttribute with the decoder\'s transform vs with the description re-read via InitFromAttribute; Dequantizer'),
  Ob('C10.normal_dec_desc', 'C10/normaldec.cc', 'h_normal_dec_desc', tier='quick', unwind=8, max_alloc=160, fill_bound=6,
     bound='every supported bitstream version 1.0 .. 2.3, 4 symbolic parameter bytes with symbolic length, real SequentialNormalAttributeDecoder / PointAttribute objects',
     covers='SequentialNormalAttributeDecoder::DecodeDataNeededByPortableTransform (2.0 gate), AttributeOctahedronTransform::DecodeParameters/TransferToAttribute/InitFromAttribute'),
  Ob('C10.kd_skip', 'C10/kdxform2.cc', 'h_kd_skip', tier='quick', unwind=14, defines={'_GLIBCXX_ASSERTIONS': 1}, unwindset=['strlen.0:32'], uf_float=True, max_alloc=64, timeout=900, mem_gb=20, diff=False,
     bound='kd-tree decoder with 2 float attributes of arbitrary semantic type (1 value x 1 component), EVERY subset of attribute types skipped, q symbolic 1..30, parameters and integers arbitrary; option lookup replaced by a table',
     covers='KdTreeAttributesDecoder::TransformAttributesToOriginalFormat, PointAttribute::CopyFrom, GeometryAttribute::CopyFrom, DataBuffer::Update/Write, AttributeTransformData copy, Dequantizer on real decoder / PointCloud / PointAttribute objects'),
  Ob('C10.kd_portable_id', 'C10/kdport.cc', 'h_kd_portable_id', tier='quick', unwind=6, max_alloc=256, timeout=900, mem_gb=20,
     stubs={'_ZNSt6vectorISt10unique_ptrIN5draco14PointAttributeESt14default_deleteIS2_EESaIS5_EE17_M_realloc_insertIJS5_EEEvN9__gnu_cxx17__normal_iteratorIPS5_S7_EEDpOT_': 'unreachable'},
     bound='kd-tree decoder (bitstream 2.3) with 2 float attributes of arbitrary type, 1..4 components and ARBITRARY unique ids, 0 points; the kd-tree core is cut by an invalid compression level (rejected after the creation loop)',
     covers='KdTreeAttributesDecoder::DecodePortableAttributes (creation of the portable attributes), PointAttribute::Reset/SetIdentityMapping, GeometryAttribute::Init'),
]
META = {}
