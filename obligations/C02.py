from vlib import Ob
OBLIGATIONS = []
B = 'C02/buf.cc'
DIV = '_ZN5draco33SequentialIntegerAttributeDecoder19DecodeIntegerValuesERKSt6vectorINS_9IndexTypeIjNS_20PointIndex_tag_type_EEESaIS4_EEPNS_13DecoderBufferE'
def ub(name, h, entry, **kw):
    kw.setdefault('tier', 'quick')
    OBLIGATIONS.append(Ob(name, h, entry, ub=True, flavour='nospec', **kw))
for t in ('u8', 'u16', 'u32', 'u64', 'float'):
    ub('C02.buf_dec_%s' % t, B, 'h_dec_%s' % t, unwind=10, defines={'NB': 8},
       bound='8 symbolic bytes, symbolic length n<=8, arbitrary position 0<=pos<=n, any bitstream version',
       covers='DecoderBuffer::Init/Peek<T>/Decode<T>')
ub('C02.buf_dec_block', B, 'h_dec_block', unwind=10, defines={'NB': 8},
   bound='8 symbolic bytes, n<=8, arbitrary pos, requested size <= 8 (precondition: size fits destination)', covers='DecoderBuffer::Decode(void*,size)/Peek(void*,size)')
for t, d in (('u8', 2), ('u16', 3), ('u32', 5), ('u64', 9), ('i32', 5), ('i64', 9)):
    ub('C02.varint_%s' % t, B, 'h_varint_%s' % t, unwind=14, defines={'NB': 12},
       bound='12 symbolic bytes, symbolic length n<=12, arbitrary start position', covers='DecodeVarint<%s> / DecodeVarintUnsigned (recursion)' % t)
ub('C02.buf_bits', B, 'h_bits', unwind=34, defines={'NB': 8, 'NFIELDS': 2},
   bound='8 symbolic bytes, n<=8, arbitrary pos, 2 bit reads of arbitrary width (any uint32), with/without size prefix, any version',
   covers='DecoderBuffer::StartBitDecoding/DecodeLeastSignificantBits32/EndBitDecoding, BitDecoder::GetBits/GetBit')
def lut(usb):
    pb = max(12, min(20, 3 * usb // 2))
    return '_ZN5draco11RAnsDecoderILi%dEE24rans_build_look_up_tableEPKjj' % pb
for usb, tier in ((5, 'quick'), (1, 'thorough'), (12, 'thorough'), (18, 'thorough')):
    ub('C02.rans_tab_N%d' % usb, 'C18/alloc.cc', 'h_rans_tab', tier=tier, unwind=8, max_alloc=16, allow_alloc_cut=True, stubs={lut(usb): 'havoc'},
       defines={'BACKING': 48, 'USB': usb},
       bound='48-byte backing buffer with symbolic contents and length, arbitrary start position, any version; tables up to 4 symbols (larger allocations cut)',
       covers='RAnsSymbolDecoder<%d>::Create: every write into probability_table_ stays inside the requested allocation (shadow sizes), zero-run tokens, extra bytes; LUT build cut' % usb)
ub('C02.direct_start', 'C18/alloc.cc', 'h_direct', unwind=14, max_alloc=48, allow_alloc_cut=True, defines={'BACKING': 48},
   bound='48-byte backing buffer, symbolic length/position/version', covers='DirectBitDecoder::StartDecoding/DecodeNextBit')
ub('C02.rans_bit_start', 'C18/alloc.cc', 'h_rans_bit', unwind=8, max_alloc=48, allow_alloc_cut=True, defines={'BACKING': 48},
   bound='48-byte backing buffer, symbolic length/position/version', covers='RAnsBitDecoder::StartDecoding/DecodeNextBit, ans_read_init, rabs_desc_read')
ub('C02.kd_out_iter', 'C02/kdout.cc', 'h_kd_out_iter', unwind=6, max_alloc=48, defines={'NPTS': 2, 'NCOMP': 2},
   bound='real PointAttribute with 2 values x 2 uint32 components (16 requested bytes inside a 48-byte chunk), iterator at ANY point index, any values',
   covers='PointAttributeVectorOutputIterator<uint32_t>::operator=(const std::vector&) / operator++ (kd_tree_attributes_decoder.cc), PointAttribute::SetAttributeValue, DataBuffer::Write')
for nm, cov in (('wrap', 'PredictionSchemeWrapDecodingTransform::DecodeTransformData/ComputeOriginalValue/ClampPredictedValue'),
                ('oct_canon', 'PredictionSchemeNormalOctahedronCanonicalizedDecodingTransform::DecodeTransformData/ComputeOriginalValue, OctahedronToolBox::IsInDiamond/InvertDiamond/ModMax, RotatePoint'),
                ('oct_plain', 'PredictionSchemeNormalOctahedronDecodingTransform::DecodeTransformData/ComputeOriginalValue')):
    ub('C02.xform_%s' % nm, 'C02/xform.cc', 'h_%s' % nm, unwind=10, max_alloc=16, fill_bound=10,
       bound='8 symbolic bytes with symbolic length and version for the transform data, then ANY int32 prediction and correction (2 components)', covers=cov)
for nm, cov in (('pgram', 'MeshPredictionSchemeParallelogramDecoder::ComputeOriginalValues, ComputeParallelogramPrediction'),
                ('multi', 'MeshPredictionSchemeMultiParallelogramDecoder::ComputeOriginalValues (fan walk with SwingRight, averaging)'),
                ):
    ub('C02.pred_dec_%s' % nm, 'C02/preddec.cc', 'h_%s_dec' % nm, unwind=10, max_alloc=16, defines={'NE': (3 if nm == 'pgram' else 2), 'NCOMP': 1},
       bound='arbitrary in-range corner table (2 faces, symmetric opposite pairing), 3 (parallelogram) / 2 (multi) entries x 1 component, ANY int32 corrections, any valid wrap bounds, crease-flag arrays of length 0..3',
       covers=cov + ', PredictionSchemeWrapDecodingTransform::ComputeOriginalValue')
ub('C02.kd_signed_dec', 'C02/kdsigned.cc', 'h_kd_signed_dec', unwind=6, max_alloc=64, timeout=900, fill_bound=6,
   bound='one INT32 / INT16 / INT8 attribute, 1 value, ANY decoded unsigned pattern and ANY minimum from the stream',
   covers='KdTreeAttributesDecoder::TransformAttributesToOriginalFormat, TransformAttributeBackToSignedType<int32_t/int16_t/int8_t>, PointAttribute::GetValue/SetAttributeValue')
ub('C02.texcoords_dec', 'C02/texdec.cc', 'h_texcoords_dec', unwind=40, max_alloc=64, timeout=1500, backend='kissat', tier='thorough', known='F12',
   bound='1 face / 3 entries, ANY int32 positions and UV values, any data order and orientation flag',
   covers='MeshPredictionSchemeTexCoordsPortablePredictor::ComputePredictedValue<false>, GetPositionForEntryId, GetTexCoordForEntryId, VectorD arithmetic, IntSqrt')
ub('C02.geom_normal_pred', 'C02/geomdec.cc', 'h_geom_normal_pred', unwind=12, max_alloc=64, timeout=900, backend='kissat', tier='quick', known='F13', exclude_define='SMALL_POSITIONS',
   bound='1 triangle, ANY int32 positions, both prediction modes',
   covers='MeshPredictionSchemeGeometricNormalPredictorArea::ComputePredictedValue, GetPositionForCorner, CrossProduct, VectorD::AbsSum, VertexCornersIterator')
ub('C02.seq_int_values', 'C02/seqint.cc', 'h_seq_int_values', unwind=14, max_alloc=256, defines={'VERIF_SMALL_ALLOC': 32, 'NENT': 1, 'NB': 12}, unwindset=[DIV + '.0:4', DIV + '.1:4'], diff=False, nodiff_reason='DecodeSymbols is cut by a stub on the model side only', timeout=900, mem_gb=20, fill_bound=14,
   stubs={'_ZN5draco13DecodeSymbolsEjiPNS_13DecoderBufferEPj': 'ret0'},
   bound='12 symbolic bytes (symbolic length), 1 entry x 1..2 components (enough input for a 5-byte entry size: the stated size decides which size-check defects are visible); compressed-value path (DecodeSymbols) cut',
   covers='SequentialIntegerAttributeDecoder::DecodeIntegerValues (raw paths, entry size field), PreparePortableAttribute, ConvertSymbolsToSignedInts')
META = {}
