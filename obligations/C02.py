from vlib import Ob
OBLIGATIONS = []
B = 'C02/buf.cc'
def ub(name, h, entry, **kw):
    kw.setdefault('tier', 'quick')
    OBLIGATIONS.append(Ob(name, h, entry, ub=True, flavour='nospec', **kw))
for t in ('u8', 'u16', 'u32', 'u64', 'float'):
    ub('C02.buf_dec_%s' % t, B, 'h_dec_%s' % t, unwind=10, defines={'NB': 8},
       bound='8 symbolic bytes, symbolic length n<=8, arbitrary position 0<=pos<=n, any bitstream version',
       covers='DecoderBuffer::Init/Peek<T>/Decode<T>')
ub('C02.buf_dec_block', B, 'h_dec_block', unwind=10, defines={'NB': 8},
   bound='8 symbolic bytes, n<=8, arbitrary pos, requested size <= 8 (precondition: size fits destination)', covers='DecoderBuffer::Decode(void*,size)/Peek(void*,size)')
for t, d in (('u8', 2), ('u16', 3), ('u32', 5), ('u64', 9), ('i32', 5), ('i64', 9)):
    ub('C02.varint_%s' % t, B, 'h_varint_%s' % t, unwind=14, defines={'NB': 12},
       bound='12 symbolic bytes, symbolic length n<=12, arbitrary start position', covers='DecodeVarint<%s> / DecodeVarintUnsigned (recursion)' % t)
ub('C02.buf_bits', B, 'h_bits', unwind=34, defines={'NB': 8, 'NFIELDS': 2},
   bound='8 symbolic bytes, n<=8, arbitrary pos, 2 bit reads of arbitrary width (any uint32), with/without size prefix, any version',
   covers='DecoderBuffer::StartBitDecoding/DecodeLeastSignificantBits32/EndBitDecoding, BitDecoder::GetBits/GetBit')
META = {}
