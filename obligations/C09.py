from vlib import Ob
AP = '_ZN5draco26MeshEdgebreakerDecoderImplINS_31MeshEdgebreakerTraversalDecoderEE21AssignPointsToCornersEi'
CN = '_ZN5draco22MeshEdgebreakerEncoder28ComputeNumberOfEncodedPointsEv'
OBLIGATIONS = [
  Ob('C09.eb_point_count', 'C09/ebcount.cc', 'h_eb_point_count', tier='quick', unwind=7, defines={'NF': 2, 'NV': 4, 'NA': 1}, max_alloc=64, mem_gb=20, timeout=1500, known='F16', exclude_define='DEDUPLICATED_INPUT',
     unwindset=[AP + '.3:3', AP + '.5:3', AP + '.4:2', AP + '.6:2', AP + '.2:2'],
     stubs={'_ZNSt6vectorIbSaIbEE13_M_insert_auxESt13_Bit_iteratorb': 'unreachable'},
     bound='ANY corner table of 2 faces over <= 4 vertices satisfying the C13 invariants (assumed), 1 attribute connectivity with arbitrary corner->vertex map shared by encoder and decoder, flags consistent with it, ANY compatible corner->point map of the input mesh (known finding F16: input meshes with duplicate points; re-proved for deduplicated input)',
     covers='MeshEdgebreakerEncoder::ComputeNumberOfEncodedPoints vs MeshEdgebreakerDecoderImpl<MeshEdgebreakerTraversalDecoder>::AssignPointsToCorners on real Mesh / CornerTable / MeshAttributeCornerTable / encoder / decoder objects'),
  Ob('C09.eb_point_count_2att', 'C09/ebcount.cc', 'h_eb_point_count', tier='thorough', unwind=7, defines={'NF': 2, 'NV': 4, 'NA': 2, 'DEDUPLICATED_INPUT': 1}, max_alloc=64, mem_gb=24, timeout=2400, backend='kissat',
     unwindset=[AP + '.3:3', AP + '.5:3', AP + '.4:3', AP + '.6:3', AP + '.2:3'],
     stubs={'_ZNSt6vectorIbSaIbEE13_M_insert_auxESt13_Bit_iteratorb': 'unreachable'},
     bound='as C09.eb_point_count with TWO attribute connectivities (a seam of either attribute creates a point), deduplicated input', covers='as C09.eb_point_count'),
  Ob('C09.eb_point_count_3', 'C09/ebcount.cc', 'h_eb_point_count', tier='extended', unwind=10, backend='kissat', defines={'NF': 3, 'NV': 4, 'NA': 1, 'DEDUPLICATED_INPUT': 1}, max_alloc=64, mem_gb=24, timeout=3000,
     unwindset=[AP + '.3:4', AP + '.5:4', AP + '.4:2', AP + '.6:2', AP + '.2:2'],
     stubs={'_ZNSt6vectorIbSaIbEE13_M_insert_auxESt13_Bit_iteratorb': 'unreachable'},
     bound='as C09.eb_point_count with 3 faces (closed fans with interior seams become possible), deduplicated input', covers='as C09.eb_point_count'),
]
META = {}
