from vlib import Ob
H = 'C18/alloc.cc'
def lut(usb):
    pb = max(12, min(20, 3 * usb // 2))
    return '_ZN5draco11RAnsDecoderILi%dEE24rans_build_look_up_tableEPKjj' % pb
OBLIGATIONS = [
  Ob('C18.direct', H, 'h_direct', tier='quick', unwind=14, ub=True, flavour='nospec', max_alloc=48, allow_alloc_cut=True,
     defines={'BACKING': 48, 'VERIF_ALLOC_BOUND(n)': '((n)<=g_verif_input_len)'},
     bound='48-byte backing buffer with symbolic contents, symbolic stream length n<=48, arbitrary start position, any version; bound: every allocation <= n bytes',
     covers='DirectBitDecoder::StartDecoding (size_in_bytes guard), DecodeNextBit, Clear'),
  Ob('C18.rans_bit', H, 'h_rans_bit', tier='quick', unwind=8, ub=True, flavour='nospec', max_alloc=48, allow_alloc_cut=True,
     defines={'BACKING': 48, 'VERIF_ALLOC_BOUND(n)': '((n)<=g_verif_input_len)'},
     bound='as C18.direct; asserts that nothing is allocated at all',
     covers='RAnsBitDecoder::StartDecoding (size_in_bytes guard), ans_read_init, rabs_desc_read'),
]
for usb, tier in ((5, 'quick'), (1, 'thorough'), (12, 'thorough'), (18, 'thorough')):
    OBLIGATIONS.append(Ob('C18.rans_tab_N%d' % usb, H, 'h_rans_tab', tier=tier, unwind=8, ub=True, flavour='nospec', max_alloc=16, allow_alloc_cut=True,
     stubs={lut(usb): 'havoc'},
     defines={'BACKING': 48, 'USB': usb, 'VERIF_ALLOC_BOUND(n)': '((n)<=4*64*(g_verif_input_len+1))'},
     bound='48-byte backing buffer, symbolic length, arbitrary position, any version; bound: every allocation <= 4*64*(n+1) bytes (num_symbols/64 <= remaining)',
     covers='RAnsSymbolDecoder<%d>::Create (num_symbols guard, probability_table_.resize); rans_build_look_up_table cut' % usb))
OBLIGATIONS.append(Ob('C18.cmpgram_flags', H, 'h_cmpgram_flags', tier='quick', unwind=8, ub=True, flavour='nospec', max_alloc=32, allow_alloc_cut=True,
    defines={'BACKING': 24, 'MAXCORNERS': 3, 'VERIF_ALLOC_BOUND(n)': '((n)<=8+g_verif_input_len)'},
    bound='24-byte backing buffer, symbolic length/position/version, declared corner count 0..3; bound: every allocation <= 8 + stream length + number of corners',
    covers='MeshPredictionSchemeConstrainedMultiParallelogramDecoder::DecodePredictionData (num_flags <= num_corners guard, is_crease_edge_ resize), RAnsBitDecoder, wrap DecodeTransformData'))
OBLIGATIONS.append(Ob('C18.texcoords_orient', H, 'h_texcoords_orient', tier='quick', unwind=8, ub=True, flavour='nospec', max_alloc=32, allow_alloc_cut=True,
    defines={'BACKING': 24, 'MAXCORNERS': 3, 'VERIF_ALLOC_BOUND(n)': '((n)<=8+g_verif_input_len)'},
    bound='24-byte backing buffer, symbolic length/position/version, declared corner count 0..3; bound: every allocation <= 8 + stream length + number of corners',
    covers='MeshPredictionSchemeTexCoordsPortableDecoder::DecodePredictionData (orientation count, orientations_ resize), RAnsBitDecoder, wrap DecodeTransformData'))
META = {}
