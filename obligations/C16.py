from vlib import Ob
OBLIGATIONS = [
  Ob('C16.wrap', 'C16/wrap.cc', 'h_wrap', tier='quick', unwind=3, defines={'NCOMP': 1},
     bound='all int32 min<=max with max-min<2^31-1, all orig in [min,max], all 32-bit pred; 1 component',
     covers='PredictionSchemeWrapTransformBase::InitCorrectionBounds/ClampPredictedValue, EncodingTransform::ComputeCorrection, DecodingTransform::ComputeOriginalValue'),
]
for q, tier in [(2, 'quick'), (3, 'quick'), (8, 'quick'), (11, 'quick'), (16, 'quick'), (30, 'quick')] + [(x, 'thorough') for x in (4, 5, 6, 7, 9, 10, 12, 13, 14, 15, 17, 18, 19, 20, 21, 22, 23, 24, 25, 26, 27, 28, 29)]:
    OBLIGATIONS.append(Ob('C16.oct_canon_q%d' % q, 'C16/oct.cc', 'h_oct_canon', tier=tier, unwind=3, defines={'QC': q},
        bound='q=%d: all canonical (orig,pred) in [0,2^q-2]^4' % q,
        covers='PredictionSchemeNormalOctahedronCanonicalized{Encoding,Decoding}Transform::ComputeCorrection/ComputeOriginalValue, GetRotationCount/RotatePoint/IsInBottomLeft, OctahedronToolBox::IsInDiamond/InvertDiamond/ModMax/MakePositive'))
for q, tier in [(8, 'quick')] + [(x, 'thorough') for x in (2, 3, 5, 11, 16, 24, 30)]:
    OBLIGATIONS.append(Ob('C16.oct_plain_q%d' % q, 'C16/oct.cc', 'h_oct_plain', tier=tier, unwind=3, defines={'QC': q},
        bound='q=%d: canonical orig, any pred in the square (legacy non-canonicalized transform)' % q,
        covers='PredictionSchemeNormalOctahedron{Encoding,Decoding}Transform::ComputeCorrection/ComputeOriginalValue'))
for q, tier in [(x, 'thorough') for x in (2, 3, 8, 16)]:
    OBLIGATIONS.append(Ob('C16.oct_canon_anypred_q%d' % q, 'C16/oct.cc', 'h_oct_canon_anypred', tier=tier, unwind=3, defines={'QC': q},
        bound='q=%d: canonical orig, ANY pred in the square (not necessarily canonical)' % q,
        covers='as C16.oct_canon'))
for nc in (2, 3):
    OBLIGATIONS.append(Ob('C16.wrap_%dcomp' % nc, 'C16/wrap.cc', 'h_wrap', tier='thorough', unwind=5, defines={'NCOMP': nc},
        bound='as C16.wrap with %d components' % nc, covers='as C16.wrap'))
META = {}
