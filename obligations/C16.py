from vlib import Ob
OBLIGATIONS = [
  Ob('C16.wrap', 'C16/wrap.cc', 'h_wrap', tier='quick', unwind=3, defines={'NCOMP': 1},
     bound='all int32 min<=max with max-min<2^31-1, all orig in [min,max], all 32-bit pred; 1 component',
     covers='PredictionSchemeWrapTransformBase::InitCorrectionBounds/ClampPredictedValue, EncodingTransform::ComputeCorrection, DecodingTransform::ComputeOriginalValue'),
]
META = {}
