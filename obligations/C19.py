# C19: no encoded unit touches shared mutable state.  Every quick obligation of the other properties is re-used as a
# "unit": all functions reachable from its entry (direct calls + vtable entries) are scanned for references to mutable
# globals / function-local statics; CBMC decides reachability if a reference exists.
import importlib, sys
from vlib import Ob
OBLIGATIONS = []
seen = set()
for p in ('C01', 'C02', 'C03', 'C04', 'C07', 'C08', 'C09', 'C10', 'C12', 'C13', 'C16', 'C17', 'C18', 'C11', 'C20', 'C06'):
    try:
        m = importlib.import_module(p)
    except ImportError:
        continue
    for o in m.OBLIGATIONS:
        key = (o.harness, o.entry)
        if key in seen: continue       # one scan per harness entry (defines only change bounds)
        seen.add(key)
        OBLIGATIONS.append(Ob('C19.' + o.name, o.harness, o.entry, tier='quick' if o.tier == 'quick' else 'thorough', unwind=o.unwind,
            unwindset=o.unwindset, defines=o.defines, ub=False, flavour=o.flavour, stubs=o.stubs, max_alloc=o.max_alloc,
            engine='globals', diff=False, allow_alloc_cut=True, fill_bound=o.fill_bound,
            bound='every function reachable from the entry of %s (calls and vtables)' % o.name,
            covers='no load/store/address-taking of a non-constant global or function-local static'))
OBLIGATIONS.append(Ob('C19.api', 'C19/api.cc', 'api_entry', tier='quick', engine='apiscan', diff=False,
    bound='all functions of the encode/decode pipeline reachable from Decoder::Decode*FromBuffer/DecodeBufferToGeometry, Encoder::Encode*ToBuffer, ExpertEncoder::EncodeToBuffer, KeyframeAnimationEncoder/Decoder (calls + vtables), unoptimised IR of 83 translation units',
    covers='no reference to a mutable global or function-local static anywhere in the pipeline (allow-list: stderr, std::nothrow)'))
META = {'rule': 'one case = one real draco function (demangled, from the unoptimised IR) whose every instruction was scanned for references to mutable globals / local statics, summed over the scanned units (a function reachable from several harness entries is counted once per unit); evaluations = units scanned (+ CBMC reachability queries when a reference exists)',
        'explanation': 'sufficient condition for C19: a unit that touches only the objects it was given cannot race or cross-talk with another instance, under any interleaving and any number of threads'}
