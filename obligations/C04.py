from vlib import Ob
import struct
def fb(x): return '0x%08xu' % struct.unpack('<I', struct.pack('<f', x))[0]
OBLIGATIONS = []
grid_q = [(1, 'quick'), (2, 'quick'), (8, 'quick'), (11, 'quick'), (14, 'thorough'), (16, 'thorough')]
ranges = [(1.0, 'quick'), (3.7, 'quick'), (1000.5, 'thorough'), (2.0 ** -10, 'thorough'), (1048576.125, 'thorough')]
for q, tq in grid_q:
    for r, tr in ranges:
        tier = 'quick' if (tq == 'quick' and tr == 'quick') else 'thorough'
        OBLIGATIONS.append(Ob('C04.scalar_q%d_r%g' % (q, r), 'C04/quant.cc', 'h_scalar', tier=tier, unwind=2, backend='kissat',
            defines={'QBITS': q, 'RANGE_BITS': fb(r)},
            bound='q=%d, range=%g (concrete), every float32 v in [0,range]' % (q, r),
            covers='Quantizer::Init/QuantizeFloat, Dequantizer::Init/DequantizeFloat'))
OBLIGATIONS.append(Ob('C04.params', 'C10/attr.cc', 'h_params', tier='quick', unwind=6, defines={'NCOMP': 2}, max_alloc=64, uf_float=True,
    bound='2 points x 2 components, every float32 bit pattern, q symbolic 1..30; float subtraction abstracted as an uninterpreted function (the reference uses the same subtraction)',
    covers='AttributeQuantizationTransform::ComputeParameters (NaN/Inf rejection, per-component minimum, range = largest extent, degenerate range 1.0)'))
OBLIGATIONS.append(Ob('C04.inverse_is_dequant', 'C10/attr.cc', 'h_inverse_is_dequant', tier='quick', unwind=6, defines={'NCOMP': 2}, max_alloc=64, uf_float=True,
    bound='1 value x 2 components of ANY int32, q symbolic 1..30, origin/range any float bit pattern (UF floats; counterexamples refined with exact semantics)',
    covers='AttributeQuantizationTransform::InverseTransformAttribute == Dequantizer::Init/DequantizeFloat + origin (ties the attribute layer to the scalar kernel of C04.scalar_*)'))
META = {}
