from vlib import Ob
H = 'C08/rans.cc'
OBLIGATIONS = []
for pb, tier in ((12, 'quick'), (20, 'quick'), (13, 'thorough'), (15, 'thorough'), (16, 'thorough'), (18, 'thorough'), (19, 'thorough')):
    OBLIGATIONS.append(Ob('C08.ends_P%d' % pb, H, 'h_ends', tier=tier, unwind=10, defines={'PB': pb},
        bound='all states x in [L,256L), L=4*2^%d; 0..3 bytes already emitted' % pb,
        covers='RAnsEncoder<%d>::write_end, RAnsDecoder<%d>::read_init, mem_put/get_le16/24/32' % (pb, pb)))
OBLIGATIONS.append(Ob('C08.ends_ans', H, 'h_ends_ans', tier='quick', unwind=10,
    bound='all states in [4096, 2^20)', covers='ans_write_end, ans_read_init'))
for p, n, tier in ((4, 4, 'quick'), (6, 3, 'thorough')):
    OBLIGATIONS.append(Ob('C08.lut_P%d' % p, H, 'h_lut', tier=tier, unwind=(1 << p) + 2, defines={'LUTP': p, 'LUTN': n}, max_alloc=(1 << p) * 4,
        bound='precision 2^%d (same template source as the 2^12..2^20 instantiations), <=%d symbols, any uint32 probabilities, arbitrary slot r' % (p, n),
        covers='RAnsDecoder<P>::rans_build_look_up_table'))
def lutname(usb):
    import subprocess
    pb = max(12, min(20, 3 * usb // 2))
    return '_ZN5draco11RAnsDecoderILi%dEE24rans_build_look_up_tableEPKjj' % pb
for usb, ns, tier in ((5, 3, 'quick'), (12, 3, 'quick'), (18, 3, 'thorough'), (5, 4, 'thorough')):
    OBLIGATIONS.append(Ob('C08.table_N%d_%dsym' % (usb, ns), H, 'h_table', tier=tier, unwind=8, defines={'USB': usb, 'NSYM': ns}, max_alloc=16,
        stubs={lutname(usb): 'ret1'},
        bound='any valid table (sum = precision, last prob > 0) with <= %d symbols incl. zero entries; one trailing byte; stream version 2.2' % ns,
        covers='RAnsSymbolEncoder<%d>::EncodeTable, RAnsSymbolDecoder<%d>::Create (rans_build_look_up_table cut, proved by C08.lut)' % (usb, usb)))
OBLIGATIONS.append(Ob('C08.e2e_P4_k2', H, 'h_e2e', tier='quick', unwind=18, defines={'E2EP': 4, 'K': 2}, max_alloc=64,
    bound='precision 2^4, 3-symbol alphabet with any valid probabilities, every 2-symbol sequence', covers='RAnsEncoder<4>::write_init/rans_write/write_end, RAnsDecoder<4>::rans_build_look_up_table/read_init/rans_read'))
OBLIGATIONS.append(Ob('C08.e2e_P4_k3', H, 'h_e2e', tier='thorough', unwind=18, defines={'E2EP': 4, 'K': 3}, max_alloc=64,
    bound='precision 2^4, every 3-symbol sequence', covers='as C08.e2e_P4_k2'))
TAG = '_ZN5draco19EncodeTaggedSymbolsINS_17RAnsSymbolEncoderEEEbPKjiiRKSt6vectorIjSaIjEEPNS_13EncoderBufferE'
RAW = '_ZN5draco16EncodeRawSymbolsINS_17RAnsSymbolEncoderEEEbPKjijiPKNS_7OptionsEPNS_13EncoderBufferE'
OBLIGATIONS.append(Ob('C08.raw_estimate_safe', 'C08/select.cc', 'h_raw_estimate', tier='quick', unwind=12, ub=True, flavour='nospec', max_alloc=32,
    allow_alloc_cut=True, diff=False, stubs={'log2': 'ret0'},
    bound='2 symbols with maximum < 2^31 (call context, see C08.reject_32bit); frequency tables above 32 bytes (max symbol > 7) are cut; log2 cut (returns 0: the entropy value is not the subject)',
    covers='ApproximateRawSchemeBits -> ComputeShannonEntropy(symbols, n, int max_value): conversion of the uint32 maximum to int, frequency table allocation and indexing'))
TAG = '_ZN5draco19EncodeTaggedSymbolsINS_17RAnsSymbolEncoderEEEbPKjiiRKSt6vectorIjSaIjEEPNS_13EncoderBufferE'
RAW = '_ZN5draco16EncodeRawSymbolsINS_17RAnsSymbolEncoderEEEbPKjijiPKNS_7OptionsEPNS_13EncoderBufferE'
OBLIGATIONS.append(Ob('C08.reject_32bit', 'C08/select.cc', 'h_reject_32bit', tier='quick', unwind=12, ub=True, flavour='nospec', uf_float=True, max_alloc=144,
    allow_alloc_cut=True, diff=False, stubs={TAG: 'ret1', RAW: 'ret1'},
    bound='2 symbols, at least one >= 2^31, default options',
    covers='EncodeSymbols: ComputeBitLengths + the 32-bit guard (no entropy estimate, no frequency table is reached); coders cut'))
META = {}
